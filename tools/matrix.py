#!/usr/bin/env python3
"""Detection matrix: every seeded change in /verif/seeded (or the ids given on the command line) is applied to its own
scratch worktree of /repo (outside /repo and /verif, removed afterwards) and the check of the seed's property is run
there (VERIF_REPO). Evidence of these runs goes to a scratch directory. The result is written into the seed's meta.json
(detection.<property>) and summarised on stdout. Runs JOBS seeds at a time (default 3).
usage: tools/matrix.py [-j N] [--mutants] [id ...]"""
import json, os, shutil, subprocess, sys, tempfile, glob
from concurrent.futures import ThreadPoolExecutor

ENV = dict(os.environ, GOFLAGS="-mod=mod", GOPROXY="off"); ENV.pop("GOSUMDB", None)
def sh(cmd, cwd=None, timeout=3600, env=None):
    p = subprocess.run(cmd, shell=True, cwd=cwd, env=env or ENV, capture_output=True, text=True, timeout=timeout)
    return p.returncode, p.stdout + p.stderr

args = sys.argv[1:]
jobs = 3
if args[:1] == ["-j"]:
    jobs = int(args[1]); args = args[2:]
mutants = args[:1] == ["--mutants"]
if mutants:
    # the reverted fixes and hand-written mutants in /verif/mutants, each under the property its file name starts with
    args = args[1:]
    ids = args or sorted(os.path.basename(m)[:-5] for m in glob.glob("/verif/mutants/*.diff"))
else:
    ids = args or sorted(os.path.basename(os.path.dirname(m)) for m in glob.glob("/verif/seeded/*/meta.json"))
base = os.environ.get("TMPDIR") or "/var/tmp"

def one(sid):
    if mutants:
        return one_patch(sid, sid.split("-")[0], f"/verif/mutants/{sid}.diff", None)
    d = f"/verif/seeded/{sid}"
    meta = json.load(open(f"{d}/meta.json"))
    return one_patch(sid, meta["property"], f"{d}/patch.diff", meta)

def one_patch(sid, prop, patch, meta):
    d = f"/verif/seeded/{sid}"
    if meta is not None and meta.get("obsolete"):
        return sid, prop, "obsolete", 0
    wt = tempfile.mkdtemp(prefix="govc-mx-", dir=base); os.rmdir(wt)
    out = tempfile.mkdtemp(prefix="govc-mxo-", dir=base)
    try:
        rc, o = sh(f"git -C /repo worktree add -q --detach {wt} HEAD")
        if rc != 0:
            return sid, prop, "worktree-failed", 0
        rc, o = sh(f"git apply --recount --whitespace=nowarn {patch}", cwd=wt)
        if rc != 0:
            return sid, prop, "patch-does-not-apply", 0
        rc, o = sh(f"./check {prop} quick", cwd="/verif", env=dict(ENV, VERIF_REPO=wt, VERIF_OUT=out))
        v = [l for l in o.splitlines() if l.startswith("VIOLATION")]
        if meta is not None:
            meta.setdefault("detection", {})[prop] = {"exit": rc, "violations": [l[:300] for l in v[:6]], "n_violations": len(v)}
            json.dump(meta, open(f"{d}/meta.json", "w"), indent=1)
        return sid, prop, "caught" if rc == 1 and v else "MISSED", len(v)
    finally:
        sh(f"git -C /repo worktree remove --force {wt}")
        shutil.rmtree(out, ignore_errors=True)

res = []
with ThreadPoolExecutor(max_workers=jobs) as ex:
    for r in ex.map(one, ids):
        print(*r, flush=True)
        res.append(r)
sh("git -C /repo worktree prune")
res = [r for r in res if r[2] != "obsolete"]
caught = sum(1 for r in res if r[2] == "caught")
print(f"SUMMARY caught={caught} of {len(res)}; not caught: {[r[0] + ':' + r[2] for r in res if r[2] != 'caught']}")
