#!/usr/bin/env python3
"""Ingest and evaluate seeded property-breaking changes.

  tools/seed.py ingest <agent-worktree> <id>   verify the change in a fresh worktree of /repo HEAD, store /verif/seeded/<id>/
  tools/seed.py run <id> [prop ...]             apply seeded/<id>/patch.diff to /repo, run ./check for the property, restore
"""
import json, os, shutil, subprocess, sys, tempfile

ENV = dict(os.environ, GOFLAGS="-mod=mod", GOPROXY="off")
ENV.pop("GOSUMDB", None)

def sh(cmd, cwd=None, timeout=1200):
    p = subprocess.run(cmd, shell=True, cwd=cwd, env=ENV, capture_output=True, text=True, timeout=timeout)
    return p.returncode, p.stdout + p.stderr

def suite_ok(out):
    """every FAIL line must belong to the always-failing test or to the demo"""
    bad = []
    for l in out.splitlines():
        if l.startswith("--- FAIL") and "TestAllLessFilesRender" not in l and "TestSeedDemo" not in l:
            bad.append(l)
        if l.startswith("FAIL\t") and "/tests" not in l and "[build failed]" in l:
            bad.append(l)
    return bad

def ingest(src, sid):
    seed = os.path.join(src, "SEED")
    meta = json.load(open(os.path.join(seed, "meta.json")))
    demo_dir = meta.get("demo_test_dir", ".")
    wt = tempfile.mkdtemp(prefix="seedv-", dir="/tmp")
    os.rmdir(wt)
    rc, out = sh(f"git -C /repo worktree add -q --detach {wt} HEAD")
    assert rc == 0, out
    res = {"id": sid, "property": meta.get("property"), "ran": []}
    try:
        # demo on unchanged code
        dst = os.path.join(wt, demo_dir, "seed_demo_test.go")
        shutil.copy(os.path.join(seed, "seed_demo_test.go"), dst)
        rc0, out0 = sh(f"go test -vet=off -count=1 -run 'TestSeedDemo' ./{demo_dir}/", cwd=wt)
        res["demo_passes_without_change"] = rc0 == 0
        res["ran"].append(f"go test -run TestSeedDemo ./{demo_dir}/ (unchanged): rc={rc0}")
        rc, out = sh(f"git apply --whitespace=nowarn {seed}/patch.diff", cwd=wt)
        res["patch_applies_to_head"] = rc == 0
        if rc != 0:
            res["apply_error"] = out[-500:]
        else:
            rcb, outb = sh("go build ./...", cwd=wt)
            res["builds"] = rcb == 0
            rc1, out1 = sh(f"go test -vet=off -count=1 -run 'TestSeedDemo' ./{demo_dir}/", cwd=wt)
            res["demo_fails_with_change"] = rc1 != 0
            res["ran"].append(f"go test -run TestSeedDemo ./{demo_dir}/ (changed): rc={rc1}")
            os.remove(dst)
            rc2, out2 = sh("go test -vet=off -count=1 ./...", cwd=wt)
            bad = suite_ok(out2)
            res["suite_passes_with_change"] = not bad
            res["suite_failures"] = bad[:5]
            res["ran"].append("go test -vet=off -count=1 ./... (changed, demo removed)")
    finally:
        sh(f"git -C /repo worktree remove --force {wt}")
    ok = all(res.get(k) for k in ["demo_passes_without_change", "patch_applies_to_head", "builds", "demo_fails_with_change", "suite_passes_with_change"])
    res["confirmed"] = ok
    print(json.dumps(res, indent=1))
    if ok:
        d = f"/verif/seeded/{sid}"
        os.makedirs(d, exist_ok=True)
        shutil.copy(os.path.join(seed, "patch.diff"), d)
        shutil.copy(os.path.join(seed, "seed_demo_test.go"), os.path.join(d, "seed_demo_test.go.txt"))
        meta.update({"id": sid, "verified_by_me": res, "repo_head_when_verified": sh("git -C /repo rev-parse --short HEAD")[1].strip()})
        json.dump(meta, open(os.path.join(d, "meta.json"), "w"), indent=1)
    return ok

def run(sid, props):
    d = f"/verif/seeded/{sid}"
    meta = json.load(open(os.path.join(d, "meta.json")))
    props = props or [meta["property"]]
    rc, out = sh("git -C /repo status --porcelain")
    if out.strip():
        print("refusing: /repo not clean"); return 3
    rc, out = sh(f"git -C /repo apply --whitespace=nowarn {d}/patch.diff")
    if rc != 0:
        print("patch does not apply:", out); return 3
    results = {}
    scratch = tempfile.mkdtemp(prefix="govc-seedout-", dir=os.environ.get("TMPDIR") or "/var/tmp")
    try:
        for p in props:
            # evidence and replay files of a run against a broken tree go to a scratch directory, not to /verif/evidence
            rc, out = sh(f"VERIF_OUT={scratch} ./check {p} quick", cwd="/verif")
            v = [l for l in out.splitlines() if l.startswith("VIOLATION")]
            results[p] = {"exit": rc, "violations": [l[:300] for l in v[:6]], "n_violations": len(v)}
    finally:
        sh("git -C /repo checkout -- . && git -C /repo clean -fdq")
        shutil.rmtree(scratch, ignore_errors=True)
    print(json.dumps(results, indent=1))
    meta.setdefault("detection", {}).update(results)
    json.dump(meta, open(os.path.join(d, "meta.json"), "w"), indent=1)
    return 0

if __name__ == "__main__":
    if sys.argv[1] == "ingest":
        sys.exit(0 if ingest(sys.argv[2], sys.argv[3]) else 1)
    if sys.argv[1] == "run":
        sys.exit(run(sys.argv[2], sys.argv[3:]))
