#!/usr/bin/env python3
"""No-false-alarm corpus: every patch in /verif/benign is a change that keeps all properties (comments, error texts,
a renamed local that no contract names, an extracted pure helper, reordered independent statements, a new method).
Each is applied to a scratch copy of /repo (outside /repo and /verif, removed afterwards) and every claimed check must
stay quiet there (exit 0, no VIOLATION line). Prints a JSON summary."""
import json, os, shutil, subprocess, sys, tempfile, glob

ENV = dict(os.environ, GOFLAGS="-mod=mod", GOPROXY="off"); ENV.pop("GOSUMDB", None)
def sh(cmd, cwd=None, timeout=3600):
    p = subprocess.run(cmd, shell=True, cwd=cwd, env=ENV, capture_output=True, text=True, timeout=timeout)
    return p.returncode, p.stdout + p.stderr

base = os.environ.get("TMPDIR") or "/var/tmp"
out = {"cases": [], "quiet": 0, "total": 0}
for patch in sorted(glob.glob("/verif/benign/*.diff")):
    cid = os.path.basename(patch)[:-5]
    wt = tempfile.mkdtemp(prefix="govc-bn-", dir=base); os.rmdir(wt)
    tmpout = tempfile.mkdtemp(prefix="govc-bno-", dir=base)
    try:
        rc, o = sh(f"git -C /repo worktree add -q --detach {wt} HEAD")
        if rc != 0:
            out["cases"].append({"id": cid, "result": "worktree-failed"}); continue
        rc, o = sh(f"git apply --recount --whitespace=nowarn {patch}", cwd=wt)
        if rc != 0:
            out["cases"].append({"id": cid, "result": "patch-does-not-apply"}); continue
        rc, o = sh(f"/verif/bin/govc check -repo {wt} -verif /verif -out {tmpout} -property all -tier quick")
        viol = [l for l in o.splitlines() if l.startswith("VIOLATION")]
        quiet = rc == 0 and not viol
        out["total"] += 1
        out["quiet"] += 1 if quiet else 0
        out["cases"].append({"id": cid, "result": "quiet" if quiet else "ALARM", "alarms": [v[:260] for v in viol[:8]], "n_alarms": len(viol)})
    finally:
        sh(f"git -C /repo worktree remove --force {wt}")
        shutil.rmtree(tmpout, ignore_errors=True)
sh("git -C /repo worktree prune")
print(json.dumps(out, indent=1))
