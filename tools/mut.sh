#!/bin/bash
# usage: tools/mut.sh <patch-file> <govc args...>   — apply a patch to /repo, run govc, always restore.
set -u
P="$1"; shift
if ! git -C /repo diff --quiet || [ -n "$(git -C /repo status --porcelain)" ]; then echo "refusing: /repo has uncommitted changes" >&2; exit 3; fi
git -C /repo apply --recount "$(realpath "$P")" || { echo "patch does not apply" >&2; exit 3; }
/verif/bin/govc "$@"; rc=$?
git -C /repo checkout -- . ; git -C /repo clean -fdq
exit $rc
