#!/usr/bin/env python3
"""Must-fail corpus for one property: every seeded change (/verif/seeded) and hand-written mutant (/verif/mutants)
that targets the property is applied to a scratch copy of /repo (outside /repo and /verif, removed afterwards) and the
property's check must report a violation there. Prints a JSON summary (kill counts) on stdout."""
import json, os, shutil, subprocess, sys, tempfile, glob

prop = sys.argv[1]
ENV = dict(os.environ, GOFLAGS="-mod=mod", GOPROXY="off"); ENV.pop("GOSUMDB", None)
def sh(cmd, cwd=None, timeout=1800):
    p = subprocess.run(cmd, shell=True, cwd=cwd, env=ENV, capture_output=True, text=True, timeout=timeout)
    return p.returncode, p.stdout + p.stderr

cases = []
for m in sorted(glob.glob("/verif/seeded/*/meta.json")):
    meta = json.load(open(m))
    if meta.get("obsolete"):
        continue
    det = meta.get("detection", {})
    props = [meta.get("property")] + [k for k, v in det.items() if v.get("exit") == 1]
    if prop in props:
        cases.append((meta["id"], os.path.join(os.path.dirname(m), "patch.diff")))
for d in sorted(glob.glob(f"/verif/mutants/{prop}-*.diff")):
    cases.append((os.path.basename(d)[:-5], d))

rc, dirty = sh("git -C /repo status --porcelain")
out = {"property": prop, "cases": [], "killed": 0, "total": 0, "skipped_reason": ""}
if dirty.strip():
    out["skipped_reason"] = "/repo working tree differs from HEAD: the corpus is defined against the committed tree"
    print(json.dumps(out)); sys.exit(0)
base = os.environ.get("TMPDIR") or "/var/tmp"
for cid, patch in cases:
    wt = tempfile.mkdtemp(prefix="govc-mf-", dir=base); os.rmdir(wt)
    tmpout = tempfile.mkdtemp(prefix="govc-mfo-", dir=base)
    try:
        rc, o = sh(f"git -C /repo worktree add -q --detach {wt} HEAD")
        if rc != 0:
            out["cases"].append({"id": cid, "result": "worktree-failed"}); continue
        rc, o = sh(f"git apply --recount --whitespace=nowarn {patch}", cwd=wt)
        if rc != 0:
            out["cases"].append({"id": cid, "result": "patch-does-not-apply"}); continue
        rc, o = sh(f"/verif/bin/govc check -repo {wt} -verif /verif -out {tmpout} -property {prop} -tier quick")
        viol = [l for l in o.splitlines() if l.startswith("VIOLATION")]
        killed = rc == 1 and len(viol) > 0
        out["total"] += 1
        out["killed"] += 1 if killed else 0
        out["cases"].append({"id": cid, "result": "killed" if killed else "SURVIVED", "first_violation": (viol[0][:200] if viol else "")})
    finally:
        sh(f"git -C /repo worktree remove --force {wt}")
        shutil.rmtree(tmpout, ignore_errors=True)
sh("git -C /repo worktree prune")
print(json.dumps(out))
