#!/usr/bin/env python3
"""Regenerates /verif/MANIFEST.json from the table below (claims) and the /repo commit log (hook commits)."""
import json, subprocess

TECH = ("contract-based deductive verification: weakest-precondition / passive-form VCs generated on every run from go/ssa of the "
        "real function bodies in /repo, contracts as //@ comments in build-tag-guarded files, each obligation discharged by z3 5.1.0 / cvc5 1.0.3 / z3 4.8.12")

# property -> (level text, level note)
CLAIMS = {
 "C01": ("Serialiser and substitution clauses proved for all strings: text nodes are written as indent+EscapeString(data) outside script/style (renderNodeWithContext, exact output), attribute values are EscapeString'd exactly once (escapeAttrValue, renderAttrs against a recursive spec), lemma: such output contains no '<'/'>' and no raw '\"'.",
         "html.EscapeString facts are axioms (escNoLt, escIdentity); tokenizer behaviour and the step from per-node clauses to whole documents are paper steps; taint (no re-evaluation) clauses not built yet."),
 "C02": ("Per-node faithfulness: text exact (Esc(data)), attribute list exact against specAttrs, doctype emitted; all strings, no bound.",
         "Tree-level induction (children in order for the whole tree) and the HTML5 parser round trip are not decided; void elements: see known findings when listed."),
 "C03": ("IsTruthy equals the documented truthiness table for every Go value kind (Val datatype incl. all int widths, float32/64, -0.0). evalElseIfChain: the returned skip count is in range and either consumes the whole chain (chainEnd, recursive spec over the sibling slice) or points at the matched member; an empty v-if is falsy; HasAttr/GetAttr equal their recursive specs; the evaluate loop index stays in bounds.",
         "named numeric types go through a reflection helper that is trusted; which branch is evaluated (first truthy) is not decided beyond the skip arithmetic; condition evaluation is havocked except for its frame."),
 "C04": ("v-for scope discipline: the loop-body closure evalFor$1 pushes one scope and pops it on every return path (error paths included); evalFor/evalVFor/evaluate/evaluateChildren/evaluateNodeAsElement restore the scope list exactly (same maps, same order); the skip count returned by evalVFor stays inside the sibling slice and the evaluate loop index stays in bounds.",
         "Stack.ForEach (reflection + callback) is a trusted contract; per-item binding values and the v-else-iff-empty clause are not decided; frames of ~40 helper functions are proved, callFunc (reflection) is trusted."),
 "C05": ("Includes: evalInclude pushes the props scope and the deferred Pop restores the includer's scope list on all return paths (C05.noleak); evalTemplate keeps the scope list; WithTemplate shares stack/seen/slot scope.",
         "required-attribute check, typed props and shorthand equivalence are not yet under contract; contents of the includer's scopes (as opposed to the scope list) are not yet frozen by contract."),
 "C06": ("evalSlot: the props scope pushed for a scoped slot template is popped on every return path (scope list restored).",
         "slot content partition, fallback-iff-absent and per-instance slot scope are not decided."),
 "C07": ("layout loop: destination writer untouched until the final copy (invariant), depth bounded by maxDepth with a decreases clause (termination of every chain/cycle); each link is resolved relative to the file loaded in the same iteration (assert clauses at the Load and resolveLayoutPath calls); resolveLayoutPath returns the relative candidate iff it exists, else layouts/<name>.vuego (exact postcondition over Stat).",
         "template loading/filling inside the loop is havocked; the default-layout dispatch in Render is not under contract; filepath.Join/Dir and fs.Stat are uninterpreted."),
 "C08": ("template.Fill: the root scope is a fresh map with front-matter > passed data > config for every key (three map-range loops with visited-set invariants, exact postcondition); Stack.EnvMap agrees with Lookup for every name (scopes innermost-first, root struct fields as fallback).",
         "one inner-loop invariant of EnvMap is listed as not decided; toMapData (struct data through reflection) is a trusted contract; loadConfig order not under contract."),
 "C09": ("Lock discipline for every shared cache (ExprEvaluator.programs, Vue.templateCache, the global pathCache): the guarded map is read only with its RWMutex held (read or write) and written only with the write lock; every locking function starts with no lock held and releases everything on every return path (ghost held-state, Lock/RLock/Unlock/RUnlock preconditions); clone helpers used before evaluation return fresh nodes with copied attribute slices; Vue.Render and RenderFragment root the scope stack on a map allocated by the call (front-matter is merged into a copy, never into the caller's shared data).",
         "NOT a schedule exploration: interleavings, happens-before outside the declared guarded fields and pool hand-over are not decided by contracts; assumes no lock is held when a locking function is entered. 'Same bytes as alone' and data-race freedom are covered only by a BOUNDED stand-in (bounded/C09__concurrency__root.go.txt: one engine and one base template, 8 goroutines x 30 rounds x 5 entry points = 1200 calls from cold caches under the Go race detector, each output compared with the sequential run), reported under coverage.bounded and never counted as proved."),
 "C10": ("Pool discipline: Pop empties a map before Put (loop invariant over the visited set) and only recycles maps that came from the pool (object invariant of Stack, ghost fromPool); the pooled strings.Builder is Reset before Put on every path of interpolate (deferred closure); NewNode zeroes every field; clone helpers copy attribute slices; Fill never adopts the caller's map. Determinism sweep: for every function one obligation order:maprange states that no map-range loop feeds an order-sensitive accumulator (append / string concatenation carried around the loop, writes to an outer writer) unless a sort call dominates every later use.",
         "the order:maprange obligations are decided by a dataflow rule over go/ssa (backend 'dataflow'), not by the solver; calls of arbitrary functions inside a map-range body are not analysed; time-seeded v-once ids are not under contract."),
 "C11": ("Zero-annotation panic sweep over every function of the production packages: index/slice bounds, nil dereference, type assertions, nil-map writes, division by zero, explicit panics; layout loop termination (decreases). Discharged obligations form the baseline.",
         "obligations that do not discharge are listed as undecided and are not counted; recursion depth over includes not yet bounded. Reflection-based traversal and calls (Resolve/resolveStep/internal/reflect, callFunc) are covered only by the two BOUNDED stand-ins of C17 and C13 (a panic there is a bounded failure), never counted as proved."),
 "C12": ("For every render entry point (Render, RenderFile, RenderString, RenderByte, RenderReader, layout, renderWithoutLayout, Vue.Render/RenderFragment/RenderNodes, renderNodesWithContext, render, renderNode(WithContext)): error without writer failure => nothing written; writer failure => non-nil error; nil error => no new writer failure. Writer failure at every offset is the universally quantified Write stub.",
         "assumes the destination writer is reachable only through explicit Write-capable arguments; evaluation (evaluate/preProcess/postProcess) is havocked; io.Copy/WriteTo/Write stubs assumed."),
 "C13": ("The compiled-program cache of ExprEvaluator is sound: every cached program equals the compilation of its key with the evaluator's fixed options (object invariant), so getProgram returns the same program on a hit as on a miss for every cache state.",
         "expr-lang Compile/Run are uninterpreted stubs; pipe composition and uniform normalisation across positions are not under contract. The reflective call (callFunc/convertValue: context injection, variadics, per-parameter conversion, arity errors) is outside the verifier's subset and is covered only by a BOUNDED stand-in (bounded/C11+C13__callfunc__root.go.txt: 14 signatures x all argument lists of length <= 3 over 8 values = 8190 calls against a reflection-free oracle, run on the real code through go test -overlay), reported under coverage.bounded and never counted as proved."),
 "C14": ("shouldIgnoreAttr == documented directive list; isLiteralAttr; renderAttrs == spec (brackets unwrapped, directives dropped, escaping applied once).",
         "binding evaluation (evalAttributes, class/style merge, v-show) not yet under contract."),
 "C18": ("OverlayFS.Open returns the file of the first non-nil layer that opens the name (recursive spec firstOpen, loop invariant), fs.ErrNotExist otherwise; nil layers never dereferenced; NewOverlayFS builds [upper]++lower in order. ReadDir: every returned entry is the entry of the first layer (in chain order, nil and failing layers skipped) that lists its name (recursive specs firstEntry/firstIn, three loop invariants).",
         "fs.FS.Open / fs.ReadDir are deterministic stubs; sort.Slice is modelled as an arbitrary permutation (so the proof does not rely on stability), name-sortedness and completeness of the listing (every name of every layer appears) are not decided; Glob is not under contract."),
 "C15": ("loadCachedWithFrontMatter with the cache as an object invariant of Vue (every entry is the parse of its file at the entry's mtime): a successful load returns the parse for the file's current mtime, a file that cannot be stat-ed is an error, a failed load leaves the cache unchanged, the invariant is re-established on every path.",
         "assumes (trusted contract of loadFragment) that a read returns the content belonging to the mtime a Stat reports at that moment, and equal non-zero mtime => equal content (the cache's documented assumption); Load/include paths that bypass the cache are not related to it by contract."),
 "C16": ("In evaluate, whenever control reaches the v-pre/v-for/v-if dispatch for an element carrying v-once, its id is already recorded in the per-render seen set (assert-at clause); NewVueContext creates a fresh empty seen set; WithTemplate shares it along the include chain.",
         "assignOnceIDs (recursive closure over the tree) is a trusted contract: distinct non-empty ids per parse are not proved. 'Emitted exactly once if reached, distinct elements never suppress one another, same for every entry point' is covered only by a BOUNDED stand-in (bounded/C16__vonce__root.go.txt: 13 shapes x 3 companions x 4 entry points = 156 templates, each rendered twice), reported under coverage.bounded and never counted as proved; skipping of already-seen elements is not stated as a clause; an element that still carries v-for is exempt from the marking clause (its per-item clones are checked instead)."),
 "C19": ("Formatter output functions: escapeText equals a recursive spec for all strings (outside complete mustaches & < > become references, mustaches are copied byte for byte); renderOpenTag writes every attribute value between double quotes with its own double quotes as &quot; (exact recursive spec over the attribute list).",
         "FormatAttr (regexp) is a trusted contract; idempotence and parse-equivalence of whole documents are relations through the external HTML5 parser and are not decided; front-matter/doctype/raw-text clauses not under contract."),
 "C17": ("Stack as a scope stack: Lookup = innermost binding else root field (recursive spec lookupIdx, loop invariant), Set touches only the top scope, Push/Pop restore the scope list, Pop keeps >= 1 scope, EnvMap agrees with Lookup, Copy is fresh and equal; object invariant len(pooled)==len(stack).",
         "path resolution through reflection (Resolve/resolveStep/parsePath) is outside the verifier's subset: it is covered only by a BOUNDED stand-in (bounded/C11+C17__resolve__root.go.txt: 64 root values of depth <= 2 x 12 segments x 4 path syntaxes x <= 2 steps = 150 528 paths against a reflection-free oracle, run on the real code through go test -overlay), reported under coverage.bounded and never counted as proved; ResolveValue/PopulateStructFields are trusted stubs."),
}
NA = {
 "C20": "equivalence with an external reference renderer (goldmark) over all documents: no contract on a repository function can express the oracle (DESIGN.md §8)",
}

def main():
    log = subprocess.run(["git", "-C", "/repo", "log", "--format=%h %s"], capture_output=True, text=True).stdout.splitlines()
    hooks = [l.split()[0] for l in log if l.split(" ", 1)[1].startswith("verif:")]
    checks = []
    for p, (t, n) in sorted(CLAIMS.items()):
        checks.append({"property_id": p, "quick_cmd": f"./check {p} quick", "thorough_cmd": f"./check {p} thorough",
                       "evidence_file": f"/verif/evidence/{p}.json", "replay_cmd_template": "cat {path}", "engine": "govc", "technique": TECH,
                       "level_claimed": {"category": "proof", "text": t, "design_ref": "DESIGN.md §7 " + p}, "level_note": n})
    na = [{"property_id": p, "reason": r} for p, r in sorted(NA.items()) if p not in CLAIMS]
    m = {"version": 1,
         "setup_cmd": "cd /verif/govc && GOFLAGS=-mod=mod GOPROXY=off go build -o /verif/bin/govc .",
         "hooks": {"guard": "verif", "enable": "go build -tags verif (files zz_contracts_verif.go are comment-only and carry //go:build verif)",
                   "baseline_off_cmd": "cd /repo && GOFLAGS=-mod=mod GOPROXY=off go test -vet=off -count=1 ./...",
                   "source_commits": hooks, "add_only": True},
         "engines": [{"name": "govc", "path": "/verif/govc", "serves_properties": sorted(CLAIMS),
                      "kind_free_text": "deductive verifier for Go written for this task: go/ssa -> passive VCs -> SMT-LIB; contracts in //@ comments; portfolio z3 5.1.0 / cvc5 1.0.3 / z3 4.8.12"}],
         "checks": checks, "not_applicable": na, "notes": "see DESIGN.md"}
    json.dump(m, open("/verif/MANIFEST.json", "w"), indent=1)
    print("claimed:", sorted(CLAIMS), "na:", [x["property_id"] for x in na])

main()
