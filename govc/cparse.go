package main

// Contract language: lexer, parser and the contract tables.
//
// Contracts are `//@` comment lines. File-level items:
//
//	//@ package <import/path>          (stub files only: sets the package of the following items)
//	//@ spec func name(a T, b U) R [decreases e] { expr }     (no body => uninterpreted)
//	//@ ghost name(x T) R              ghost state map indexed by x
//	//@ lemma name(a T) requires e decreases e ensures e
//	//@ func [(r *T)] Name(p1, p2) (r1, r2)
//	//@   requires L: e | ensures L: e | modifies a, b | modifies nothing | decreases e
//	//@   loop N invariant L: e | loop N decreases e | loop N use lem(args)
//	//@   use lem(args) | trusted | pure | assert L: e at "<source text>"
//	//@ shared <name> guarded_by <mutex-expr> | immutable_after_init | sync_safe

import (
	"fmt"
	"regexp"
	"strconv"
	"strings"
	"unicode"
)

// ---------- expression AST ----------

type Expr interface{}

type (
	Ident   struct{ Name string }
	IntLit  struct{ V int64 }
	StrLit  struct{ V string }
	BoolLit struct{ V bool }
	NilLit  struct{}
	Unary   struct {
		Op string
		X  Expr
	}
	Binary struct {
		Op   string
		X, Y Expr
	}
	CondE struct{ C, A, B Expr }
	CallE struct {
		Fun  string // possibly qualified: "html.EscapeString"
		Args []Expr
	}
	IndexE struct{ X, I Expr }
	SliceE struct{ X, Lo, Hi Expr }
	SelE   struct {
		X    Expr
		Name string
	}
	QuantE struct {
		Forall bool
		Vars   []Param
		Body   Expr
	}
	OldE struct{ X Expr }
)

type Param struct {
	Name string
	Type string // raw type text (may be empty for plain contract params)
}

func exprString(e Expr) string {
	switch x := e.(type) {
	case *Ident:
		return x.Name
	case *IntLit:
		return strconv.FormatInt(x.V, 10)
	case *StrLit:
		return strconv.Quote(x.V)
	case *BoolLit:
		return fmt.Sprint(x.V)
	case *NilLit:
		return "nil"
	case *Unary:
		return x.Op + exprString(x.X)
	case *Binary:
		return "(" + exprString(x.X) + " " + x.Op + " " + exprString(x.Y) + ")"
	case *CondE:
		return "(" + exprString(x.C) + " ? " + exprString(x.A) + " : " + exprString(x.B) + ")"
	case *CallE:
		var a []string
		for _, y := range x.Args {
			a = append(a, exprString(y))
		}
		return x.Fun + "(" + strings.Join(a, ", ") + ")"
	case *IndexE:
		return exprString(x.X) + "[" + exprString(x.I) + "]"
	case *SliceE:
		lo, hi := "", ""
		if x.Lo != nil {
			lo = exprString(x.Lo)
		}
		if x.Hi != nil {
			hi = exprString(x.Hi)
		}
		return exprString(x.X) + "[" + lo + ":" + hi + "]"
	case *SelE:
		return exprString(x.X) + "." + x.Name
	case *QuantE:
		q := "exists"
		if x.Forall {
			q = "forall"
		}
		var v []string
		for _, p := range x.Vars {
			v = append(v, p.Name+" "+p.Type)
		}
		return "(" + q + " " + strings.Join(v, ", ") + " :: " + exprString(x.Body) + ")"
	case *OldE:
		return "old(" + exprString(x.X) + ")"
	}
	return fmt.Sprintf("?%T", e)
}

// ---------- lexer ----------

type tok struct {
	k   string // "id", "int", "str", "op", "eof"
	s   string
	pos int
}

type lexer struct {
	src  string
	toks []tok
	p    int
}

var ops = []string{"<==>", "&&", "&", "==>", "::", "==", "!=", "<=", ">=", "&&", "||", "<", ">", "!", "+", "-", "*", "/", "%", "(", ")", "[", "]", "{", "}", ",", ":", "?", ".", "="}

func lex(src string) ([]tok, error) {
	var out []tok
	i := 0
	for i < len(src) {
		c := src[i]
		if c == ' ' || c == '\t' || c == '\n' || c == '\r' {
			i++
			continue
		}
		if unicode.IsLetter(rune(c)) || c == '_' || c == '$' || c == '#' {
			j := i + 1
			for j < len(src) && (unicode.IsLetter(rune(src[j])) || unicode.IsDigit(rune(src[j])) || src[j] == '_' || src[j] == '$') {
				j++
			}
			out = append(out, tok{"id", src[i:j], i})
			i = j
			continue
		}
		if c >= '0' && c <= '9' {
			j := i + 1
			for j < len(src) && src[j] >= '0' && src[j] <= '9' {
				j++
			}
			out = append(out, tok{"int", src[i:j], i})
			i = j
			continue
		}
		if c == '"' {
			j := i + 1
			for j < len(src) && src[j] != '"' {
				if src[j] == '\\' {
					j++
				}
				j++
			}
			if j >= len(src) {
				return nil, fmt.Errorf("unterminated string at %d in %q", i, src)
			}
			s, err := strconv.Unquote(src[i : j+1])
			if err != nil {
				return nil, fmt.Errorf("bad string %s: %v", src[i:j+1], err)
			}
			out = append(out, tok{"str", s, i})
			i = j + 1
			continue
		}
		if c == '`' {
			j := strings.IndexByte(src[i+1:], '`')
			if j < 0 {
				return nil, fmt.Errorf("unterminated raw string")
			}
			out = append(out, tok{"str", src[i+1 : i+1+j], i})
			i = i + j + 2
			continue
		}
		if c == '\'' {
			j := i + 1
			for j < len(src) && src[j] != '\'' {
				if src[j] == '\\' {
					j++
				}
				j++
			}
			if j >= len(src) {
				return nil, fmt.Errorf("unterminated char at %d in %q", i, src)
			}
			r, _, _, err := strconv.UnquoteChar(src[i+1:j], '\'')
			if err != nil {
				return nil, fmt.Errorf("bad char %s: %v", src[i:j+1], err)
			}
			out = append(out, tok{"int", strconv.Itoa(int(r)), i})
			i = j + 1
			continue
		}
		matched := false
		for _, o := range ops {
			if strings.HasPrefix(src[i:], o) {
				out = append(out, tok{"op", o, i})
				i += len(o)
				matched = true
				break
			}
		}
		if !matched {
			return nil, fmt.Errorf("unexpected character %q at %d in %q", c, i, src)
		}
	}
	out = append(out, tok{"eof", "", len(src)})
	return out, nil
}

type parser struct {
	src  string
	toks []tok
	p    int
}

func newParser(src string) (*parser, error) {
	t, err := lex(src)
	if err != nil {
		return nil, err
	}
	return &parser{src: src, toks: t}, nil
}

func (p *parser) peek() tok { return p.toks[p.p] }
func (p *parser) next() tok { t := p.toks[p.p]; p.p++; return t }
func (p *parser) isOp(s string) bool {
	t := p.peek()
	return t.k == "op" && t.s == s
}
func (p *parser) isID(s string) bool {
	t := p.peek()
	return t.k == "id" && t.s == s
}
func (p *parser) accept(s string) bool {
	if p.isOp(s) {
		p.p++
		return true
	}
	return false
}
func (p *parser) expect(s string) error {
	if !p.accept(s) {
		return fmt.Errorf("expected %q at %d (%q) in %q", s, p.peek().pos, p.peek().s, p.src)
	}
	return nil
}

// typeText consumes a type expression up to a top-level ',' ')' '::' '{' or eof and returns its text.
func (p *parser) typeText() string {
	start := p.peek().pos
	depth := 0
	end := start
	for {
		t := p.peek()
		if t.k == "eof" {
			break
		}
		if t.k == "op" {
			if depth == 0 && (t.s == "," || t.s == ")" || t.s == "::" || t.s == "{") {
				break
			}
			if t.s == "(" || t.s == "[" {
				depth++
			}
			if t.s == ")" || t.s == "]" {
				depth--
			}
		}
		if depth == 0 && t.k == "id" && (t.s == "decreases" || t.s == "requires" || t.s == "ensures") {
			break
		}
		p.p++
		end = p.peek().pos
	}
	return strings.TrimSpace(p.src[start:end])
}

func (p *parser) parseExpr() (Expr, error) { return p.parseIff() }

func (p *parser) parseIff() (Expr, error) {
	x, err := p.parseImp()
	if err != nil {
		return nil, err
	}
	for p.isOp("<==>") {
		p.p++
		y, err := p.parseImp()
		if err != nil {
			return nil, err
		}
		x = &Binary{"<==>", x, y}
	}
	return x, nil
}

func (p *parser) parseImp() (Expr, error) {
	x, err := p.parseCond()
	if err != nil {
		return nil, err
	}
	if p.isOp("==>") {
		p.p++
		y, err := p.parseImp()
		if err != nil {
			return nil, err
		}
		return &Binary{"==>", x, y}, nil
	}
	return x, nil
}

func (p *parser) parseCond() (Expr, error) {
	c, err := p.parseOr()
	if err != nil {
		return nil, err
	}
	if p.isOp("?") {
		p.p++
		a, err := p.parseCond()
		if err != nil {
			return nil, err
		}
		if err := p.expect(":"); err != nil {
			return nil, err
		}
		b, err := p.parseCond()
		if err != nil {
			return nil, err
		}
		return &CondE{c, a, b}, nil
	}
	return c, nil
}

func (p *parser) parseOr() (Expr, error) {
	x, err := p.parseAnd()
	if err != nil {
		return nil, err
	}
	for p.isOp("||") {
		p.p++
		y, err := p.parseAnd()
		if err != nil {
			return nil, err
		}
		x = &Binary{"||", x, y}
	}
	return x, nil
}

func (p *parser) parseAnd() (Expr, error) {
	x, err := p.parseCmp()
	if err != nil {
		return nil, err
	}
	for p.isOp("&&") {
		p.p++
		y, err := p.parseCmp()
		if err != nil {
			return nil, err
		}
		x = &Binary{"&&", x, y}
	}
	return x, nil
}

func (p *parser) parseCmp() (Expr, error) {
	x, err := p.parseAdd()
	if err != nil {
		return nil, err
	}
	for {
		t := p.peek()
		if t.k == "op" && (t.s == "==" || t.s == "!=" || t.s == "<" || t.s == "<=" || t.s == ">" || t.s == ">=") {
			p.p++
			y, err := p.parseAdd()
			if err != nil {
				return nil, err
			}
			x = &Binary{t.s, x, y}
			continue
		}
		if t.k == "id" && t.s == "in" {
			p.p++
			y, err := p.parseAdd()
			if err != nil {
				return nil, err
			}
			x = &Binary{"in", x, y}
			continue
		}
		return x, nil
	}
}

func (p *parser) parseAdd() (Expr, error) {
	x, err := p.parseMul()
	if err != nil {
		return nil, err
	}
	for p.isOp("+") || p.isOp("-") {
		op := p.next().s
		y, err := p.parseMul()
		if err != nil {
			return nil, err
		}
		x = &Binary{op, x, y}
	}
	return x, nil
}

func (p *parser) parseMul() (Expr, error) {
	x, err := p.parseUnary()
	if err != nil {
		return nil, err
	}
	for p.isOp("*") || p.isOp("/") || p.isOp("%") {
		op := p.next().s
		y, err := p.parseUnary()
		if err != nil {
			return nil, err
		}
		x = &Binary{op, x, y}
	}
	return x, nil
}

func (p *parser) parseUnary() (Expr, error) {
	if p.isOp("!") || p.isOp("-") || p.isOp("&") {
		op := p.next().s
		x, err := p.parseUnary()
		if err != nil {
			return nil, err
		}
		return &Unary{op, x}, nil
	}
	return p.parsePostfix()
}

func (p *parser) parseQuantVars() ([]Param, error) {
	var vars []Param
	for {
		t := p.next()
		if t.k != "id" {
			return nil, fmt.Errorf("expected quantified variable name in %q", p.src)
		}
		ty := p.typeText()
		if ty == "" {
			return nil, fmt.Errorf("quantified variable %s needs a type in %q", t.s, p.src)
		}
		vars = append(vars, Param{t.s, ty})
		if p.accept(",") {
			continue
		}
		break
	}
	if err := p.expect("::"); err != nil {
		return nil, err
	}
	return vars, nil
}

func (p *parser) parsePostfix() (Expr, error) {
	var x Expr
	t := p.next()
	switch {
	case t.k == "int":
		v, _ := strconv.ParseInt(t.s, 10, 64)
		x = &IntLit{v}
	case t.k == "str":
		x = &StrLit{t.s}
	case t.k == "op" && t.s == "(":
		e, err := p.parseExpr()
		if err != nil {
			return nil, err
		}
		if err := p.expect(")"); err != nil {
			return nil, err
		}
		x = e
	case t.k == "id" && (t.s == "forall" || t.s == "exists"):
		vars, err := p.parseQuantVars()
		if err != nil {
			return nil, err
		}
		body, err := p.parseExpr()
		if err != nil {
			return nil, err
		}
		return &QuantE{t.s == "forall", vars, body}, nil
	case t.k == "id" && t.s == "true":
		x = &BoolLit{true}
	case t.k == "id" && t.s == "false":
		x = &BoolLit{false}
	case t.k == "id" && t.s == "nil":
		x = &NilLit{}
	case t.k == "id" && t.s == "old" && p.isOp("("):
		p.p++
		e, err := p.parseExpr()
		if err != nil {
			return nil, err
		}
		if err := p.expect(")"); err != nil {
			return nil, err
		}
		x = &OldE{e}
	case t.k == "id":
		x = &Ident{t.s}
	default:
		return nil, fmt.Errorf("unexpected token %q at %d in %q", t.s, t.pos, p.src)
	}
	for {
		switch {
		case p.isOp("."):
			p.p++
			n := p.next()
			if n.k != "id" {
				return nil, fmt.Errorf("expected field name after '.' in %q", p.src)
			}
			x = &SelE{x, n.s}
		case p.isOp("("):
			name := selName(x)
			if name == "" {
				return nil, fmt.Errorf("call of non-name in %q", p.src)
			}
			p.p++
			var args []Expr
			for !p.isOp(")") {
				a, err := p.parseExpr()
				if err != nil {
					return nil, err
				}
				args = append(args, a)
				if !p.accept(",") {
					break
				}
			}
			if err := p.expect(")"); err != nil {
				return nil, err
			}
			x = &CallE{name, args}
		case p.isOp("["):
			p.p++
			var lo, hi Expr
			var err error
			if !p.isOp(":") {
				lo, err = p.parseExpr()
				if err != nil {
					return nil, err
				}
			}
			if p.accept(":") {
				if !p.isOp("]") {
					hi, err = p.parseExpr()
					if err != nil {
						return nil, err
					}
				}
				if err := p.expect("]"); err != nil {
					return nil, err
				}
				x = &SliceE{x, lo, hi}
			} else {
				if err := p.expect("]"); err != nil {
					return nil, err
				}
				x = &IndexE{x, lo}
			}
		default:
			return x, nil
		}
	}
}

func selName(x Expr) string {
	switch y := x.(type) {
	case *Ident:
		return y.Name
	case *SelE:
		b := selName(y.X)
		if b == "" {
			return ""
		}
		return b + "." + y.Name
	}
	return ""
}

// ---------- contract tables ----------

type Clause struct {
	Label string
	E     Expr
	Src   string
	File  string
	Line  int
	At    string // for assert clauses: source text anchor
}

type LoopSpec struct {
	Invs      []Clause
	Decreases *Clause
	Uses      []*CallE
}

type FuncContract struct {
	Pkg        string // import path
	Name       string // RelString-like: "f", "(*T).M", "(T).M"
	RecvName   string
	Params     []string
	Results    []string
	Requires   []Clause
	Ensures    []Clause
	Modifies   []Expr
	HasMod     bool // a modifies clause (or pure) is present
	Decreases  []Expr
	Loops      map[int]*LoopSpec
	Uses       []*CallE
	Asserts    []Clause
	Trusted    bool
	Pure       bool
	File       string
	Line       int
	PanicFree  bool
	NoContract bool
	Unlocked   bool   // no lock is held on entry; all locks are released at every return (C09 discipline)
	Holds      []Expr // objects whose type invariants are assumed at entry
}

func (c *FuncContract) Key() string { return c.Pkg + "::" + c.Name }

type SpecFunc struct {
	Pkg       string
	Name      string
	Params    []Param
	Ret       string
	Body      Expr // nil => uninterpreted
	Decreases Expr
	GoImpl    string // optional: Go expression implementing it, for replay
	File      string
	Line      int
}

type GhostDecl struct {
	Pkg    string
	Name   string
	Params []Param
	Ret    string
}

type Lemma struct {
	Axiom     bool
	Pkg       string
	Name      string
	Params    []Param
	Requires  []Clause
	Ensures   []Clause
	Decreases Expr
	Induct    []*CallE // explicit induction hypothesis instances
	Uses      []*CallE
	File      string
	Line      int
}

type SharedDecl struct {
	Pkg   string
	Name  string // "pathCache.m", "Vue.templateCache", "mapPool"
	Kind  string // guarded_by | immutable_after_init | sync_safe
	Guard string
	File  string
	Line  int
}

type TypeInv struct {
	Pkg      string
	RecvName string
	Type     string // "*Stack"
	Clause   Clause
}

type ModSet struct {
	Name    string
	Params  []string
	Targets []Expr
}

type Macro struct {
	Params []string
	Body   string
}

type Contracts struct {
	Macros  map[string]*Macro
	ModSets map[string]*ModSet
	Writers map[string][]string // type name -> functions allowed to write its fields from outside (assumed to restore the invariant)
	Invs    []*TypeInv
	Funcs   map[string]*FuncContract
	Specs   map[string]*SpecFunc // by bare name (spec names are global)
	Ghosts  map[string]*GhostDecl
	Lemmas  map[string]*Lemma
	Shared  []*SharedDecl
	Errs    []string
}

func newContracts() *Contracts {
	return &Contracts{Funcs: map[string]*FuncContract{}, Specs: map[string]*SpecFunc{}, Ghosts: map[string]*GhostDecl{}, Lemmas: map[string]*Lemma{}}
}

type cline struct {
	text string
	file string
	line int
}

var clauseKeywords = map[string]bool{"package": true, "spec": true, "ghost": true, "lemma": true, "axiom": true, "invariant": true, "writer": true, "modset": true, "macro": true, "holds": true, "unlocked": true, "func": true, "requires": true, "ensures": true,
	"modifies": true, "decreases": true, "loop": true, "use": true, "trusted": true, "pure": true, "assert": true, "shared": true, "induct": true, "panicfree": true, "goimpl": true}

func firstWord(s string) string {
	s = strings.TrimSpace(s)
	i := strings.IndexAny(s, " \t(")
	if i < 0 {
		return s
	}
	return s[:i]
}

// joinContinuations merges lines that do not start with a clause keyword into the previous one.
func joinContinuations(lines []cline) []cline {
	var out []cline
	for _, l := range lines {
		t := strings.TrimSpace(l.text)
		if t == "" {
			continue
		}
		if strings.HasPrefix(t, "--") { // comment inside contract block
			continue
		}
		if !clauseKeywords[firstWord(t)] && len(out) > 0 {
			out[len(out)-1].text += " " + t
			continue
		}
		out = append(out, cline{t, l.file, l.line})
	}
	return out
}

func splitLabel(s string) (string, string) {
	s = strings.TrimSpace(s)
	i := 0
	for i < len(s) && (unicode.IsLetter(rune(s[i])) || unicode.IsDigit(rune(s[i])) || s[i] == '_' || s[i] == '.' || s[i] == '-' || s[i] == '+') {
		i++
	}
	if i > 0 && i < len(s) && s[i] == ':' && (i+1 >= len(s) || s[i+1] != ':') {
		return s[:i], strings.TrimSpace(s[i+1:])
	}
	return "", s
}

func parseClause(rest string, l cline) (Clause, error) {
	label, body := splitLabel(rest)
	p, err := newParser(body)
	if err != nil {
		return Clause{}, err
	}
	e, err := p.parseExpr()
	if err != nil {
		return Clause{}, err
	}
	if p.peek().k != "eof" {
		return Clause{}, fmt.Errorf("trailing input %q in %q", p.peek().s, body)
	}
	return Clause{Label: label, E: e, Src: body, File: l.file, Line: l.line}, nil
}

func parseCallList(rest string) ([]*CallE, error) {
	p, err := newParser(rest)
	if err != nil {
		return nil, err
	}
	var out []*CallE
	for {
		e, err := p.parseExpr()
		if err != nil {
			return nil, err
		}
		c, ok := e.(*CallE)
		if !ok {
			return nil, fmt.Errorf("expected lemma instance in %q", rest)
		}
		out = append(out, c)
		if !p.accept(",") {
			break
		}
	}
	return out, nil
}

func parseNameList(p *parser) ([]string, error) {
	// after "(" ; names with optional types; returns at ")"
	var names []string
	for !p.isOp(")") {
		t := p.next()
		if t.k != "id" {
			return nil, fmt.Errorf("expected name in %q", p.src)
		}
		names = append(names, t.s)
		p.typeText() // skip optional type
		if !p.accept(",") {
			break
		}
	}
	if err := p.expect(")"); err != nil {
		return nil, err
	}
	return names, nil
}

func parseTypedParams(p *parser) ([]Param, error) {
	var ps []Param
	for !p.isOp(")") {
		t := p.next()
		if t.k != "id" {
			return nil, fmt.Errorf("expected name in %q", p.src)
		}
		ty := p.typeText()
		ps = append(ps, Param{t.s, ty})
		if !p.accept(",") {
			break
		}
	}
	if err := p.expect(")"); err != nil {
		return nil, err
	}
	// propagate types backwards: (a, b int)
	for i := len(ps) - 2; i >= 0; i-- {
		if ps[i].Type == "" {
			ps[i].Type = ps[i+1].Type
		}
	}
	return ps, nil
}

// ParseContracts parses contract lines of one file. pkg is the default package path.
// expandMacros: `macro NAME(a, b) = text` lines define textual macros usable in every later clause of the run.
func (cs *Contracts) expandMacros(lines []cline) []cline {
	var out []cline
	for pass := 0; pass < 2; pass++ {
		out = nil
		for _, l := range lines {
			if firstWord(l.text) == "macro" {
				if pass == 1 {
					continue
				}
				rest := strings.TrimSpace(strings.TrimPrefix(l.text, "macro"))
				eqi := strings.Index(rest, "=")
				op := strings.Index(rest, "(")
				cp := strings.Index(rest, ")")
				if eqi < 0 || op < 0 || cp < op || cp > eqi {
					cs.Errs = append(cs.Errs, fmt.Sprintf("%s:%d: bad macro", l.file, l.line))
					continue
				}
				var ps []string
				for _, p := range strings.Split(rest[op+1:cp], ",") {
					if p = strings.TrimSpace(p); p != "" {
						ps = append(ps, p)
					}
				}
				if cs.Macros == nil {
					cs.Macros = map[string]*Macro{}
				}
				cs.Macros[strings.TrimSpace(rest[:op])] = &Macro{Params: ps, Body: strings.TrimSpace(rest[eqi+1:])}
				continue
			}
			if pass == 0 {
				continue
			}
			l.text = cs.expandText(l.text, 0)
			out = append(out, l)
		}
	}
	return out
}

func (cs *Contracts) expandText(t string, depth int) string {
	if depth > 5 {
		return t
	}
	for name, m := range cs.Macros {
		for {
			idx := -1
			for from := 0; ; {
				j := strings.Index(t[from:], name+"(")
				if j < 0 {
					break
				}
				j += from
				if j > 0 {
					c := t[j-1]
					if c == '_' || c == '.' || (c >= 'a' && c <= 'z') || (c >= 'A' && c <= 'Z') || (c >= '0' && c <= '9') {
						from = j + 1
						continue
					}
				}
				idx = j
				break
			}
			if idx < 0 {
				break
			}
			// balanced arguments
			start := idx + len(name) + 1
			d, end := 1, -1
			var args []string
			last := start
			for k := start; k < len(t); k++ {
				switch t[k] {
				case '(', '[':
					d++
				case ')', ']':
					d--
					if d == 0 {
						end = k
					}
				case ',':
					if d == 1 {
						args = append(args, strings.TrimSpace(t[last:k]))
						last = k + 1
					}
				}
				if end >= 0 {
					break
				}
			}
			if end < 0 {
				break
			}
			if strings.TrimSpace(t[last:end]) != "" {
				args = append(args, strings.TrimSpace(t[last:end]))
			}
			body := m.Body
			if len(args) == len(m.Params) {
				for i, p := range m.Params {
					body = regexp.MustCompile(`\b`+regexp.QuoteMeta(p)+`\b`).ReplaceAllString(body, strings.ReplaceAll(args[i], "$", "$$"))
				}
			}
			t = t[:idx] + "(" + body + ")" + t[end+1:]
		}
	}
	return t
}

func (cs *Contracts) Parse(lines []cline, pkg string) {
	lines = joinContinuations(lines)
	lines = cs.expandMacros(lines)
	var cur *FuncContract
	var curLemma *Lemma
	var curSpec *SpecFunc
	fail := func(l cline, err error) {
		cs.Errs = append(cs.Errs, fmt.Sprintf("%s:%d: %v", l.file, l.line, err))
	}
	for _, l := range lines {
		kw := firstWord(l.text)
		rest := strings.TrimSpace(strings.TrimPrefix(l.text, kw))
		switch kw {
		case "package":
			pkg = rest
			cur, curLemma = nil, nil
		case "spec":
			cur, curLemma = nil, nil
			sf, err := parseSpecFunc(rest, l)
			if err != nil {
				fail(l, err)
				continue
			}
			sf.Pkg = pkg
			if _, dup := cs.Specs[sf.Name]; dup {
				fail(l, fmt.Errorf("duplicate spec func %s", sf.Name))
			}
			cs.Specs[sf.Name] = sf
			curSpec = sf
		case "goimpl":
			if curSpec != nil {
				curSpec.GoImpl = rest
			}
		case "ghost":
			cur, curLemma = nil, nil
			p, err := newParser(rest)
			if err != nil {
				fail(l, err)
				continue
			}
			n := p.next()
			if err := p.expect("("); err != nil {
				fail(l, err)
				continue
			}
			ps, err := parseTypedParams(p)
			if err != nil {
				fail(l, err)
				continue
			}
			ret := p.typeText()
			cs.Ghosts[n.s] = &GhostDecl{Pkg: pkg, Name: n.s, Params: ps, Ret: ret}
		case "modset":
			// modset name(a, b) = target, target
			eqi := strings.Index(rest, "=")
			if eqi < 0 {
				fail(l, fmt.Errorf("bad modset"))
				continue
			}
			hp, err := newParser(rest[:eqi])
			if err != nil {
				fail(l, err)
				continue
			}
			nm := hp.next()
			if err := hp.expect("("); err != nil {
				fail(l, err)
				continue
			}
			names, err := parseNameList(hp)
			if err != nil {
				fail(l, err)
				continue
			}
			ms := &ModSet{Name: nm.s, Params: names}
			tp, err := newParser(rest[eqi+1:])
			if err != nil {
				fail(l, err)
				continue
			}
			for {
				e, err := tp.parseExpr()
				if err != nil {
					fail(l, err)
					break
				}
				ms.Targets = append(ms.Targets, e)
				if !tp.accept(",") {
					break
				}
			}
			if cs.ModSets == nil {
				cs.ModSets = map[string]*ModSet{}
			}
			cs.ModSets[ms.Name] = ms
		case "writer":
			f := strings.Fields(rest)
			if len(f) < 2 {
				fail(l, fmt.Errorf("bad writer clause"))
				continue
			}
			if cs.Writers == nil {
				cs.Writers = map[string][]string{}
			}
			cs.Writers[f[0]] = append(cs.Writers[f[0]], f[1])
		case "invariant":
			// invariant (s *Stack) label: expr
			cur, curLemma = nil, nil
			r := strings.TrimSpace(rest)
			j := strings.Index(r, ")")
			if !strings.HasPrefix(r, "(") || j < 0 {
				fail(l, fmt.Errorf("bad invariant header"))
				continue
			}
			f := strings.Fields(r[1:j])
			if len(f) != 2 {
				fail(l, fmt.Errorf("bad invariant receiver"))
				continue
			}
			c, err := parseClause(r[j+1:], l)
			if err != nil {
				fail(l, err)
				continue
			}
			cs.Invs = append(cs.Invs, &TypeInv{Pkg: pkg, RecvName: f[0], Type: f[1], Clause: c})
		case "lemma", "axiom":
			cur = nil
			p, err := newParser(rest)
			if err != nil {
				fail(l, err)
				continue
			}
			n := p.next()
			if err := p.expect("("); err != nil {
				fail(l, err)
				continue
			}
			ps, err := parseTypedParams(p)
			if err != nil {
				fail(l, err)
				continue
			}
			curLemma = &Lemma{Pkg: pkg, Name: n.s, Params: ps, File: l.file, Line: l.line, Axiom: kw == "axiom"}
			cs.Lemmas[n.s] = curLemma
		case "func":
			curLemma = nil
			fc, err := parseFuncHeader(rest, l)
			if err != nil {
				fail(l, err)
				cur = nil
				continue
			}
			fc.Pkg = pkg
			if _, dup := cs.Funcs[fc.Key()]; dup {
				fail(l, fmt.Errorf("duplicate contract for %s", fc.Key()))
			}
			cs.Funcs[fc.Key()] = fc
			cur = fc
		case "requires", "ensures":
			c, err := parseClause(rest, l)
			if err != nil {
				fail(l, err)
				continue
			}
			if curLemma != nil {
				if kw == "requires" {
					curLemma.Requires = append(curLemma.Requires, c)
				} else {
					curLemma.Ensures = append(curLemma.Ensures, c)
				}
				continue
			}
			if cur == nil {
				fail(l, fmt.Errorf("%s outside func", kw))
				continue
			}
			if c.Label == "" {
				c.Label = fmt.Sprintf("%s%d", kw[:3], len(cur.Requires)+len(cur.Ensures))
			}
			if kw == "requires" {
				cur.Requires = append(cur.Requires, c)
			} else {
				cur.Ensures = append(cur.Ensures, c)
			}
		case "assert":
			if cur == nil {
				fail(l, fmt.Errorf("assert outside func"))
				continue
			}
			at := ""
			if i := strings.LastIndex(rest, " at "); i >= 0 {
				a := strings.TrimSpace(rest[i+4:])
				if u, err := strconv.Unquote(a); err == nil {
					at = u
					rest = rest[:i]
				}
			}
			c, err := parseClause(rest, l)
			if err != nil {
				fail(l, err)
				continue
			}
			c.At = at
			cur.Asserts = append(cur.Asserts, c)
		case "modifies":
			if cur == nil {
				fail(l, fmt.Errorf("modifies outside func"))
				continue
			}
			cur.HasMod = true
			if rest == "nothing" {
				continue
			}
			p, err := newParser(rest)
			if err != nil {
				fail(l, err)
				continue
			}
			for {
				e, err := p.parseExpr()
				if err != nil {
					fail(l, err)
					break
				}
				cur.Modifies = append(cur.Modifies, e)
				if !p.accept(",") {
					break
				}
			}
		case "holds":
			if cur == nil {
				fail(l, fmt.Errorf("holds outside func"))
				continue
			}
			hp, err := newParser(rest)
			if err != nil {
				fail(l, err)
				continue
			}
			he, err := hp.parseExpr()
			if err != nil {
				fail(l, err)
				continue
			}
			cur.Holds = append(cur.Holds, he)
		case "unlocked":
			if cur != nil {
				cur.Unlocked = true
			}
		case "pure":
			if cur != nil {
				cur.HasMod = true
				cur.Pure = true
			}
		case "trusted":
			if cur != nil {
				cur.Trusted = true
			}
		case "panicfree":
			if cur != nil {
				cur.PanicFree = true
			}
		case "decreases":
			p, err := newParser(rest)
			if err != nil {
				fail(l, err)
				continue
			}
			var es []Expr
			for {
				e, err := p.parseExpr()
				if err != nil {
					fail(l, err)
					break
				}
				es = append(es, e)
				if !p.accept(",") {
					break
				}
			}
			if curLemma != nil {
				if len(es) > 0 {
					curLemma.Decreases = es[0]
				}
			} else if cur != nil {
				cur.Decreases = es
			}
		case "induct":
			if curLemma == nil {
				fail(l, fmt.Errorf("induct outside lemma"))
				continue
			}
			cl, err := parseCallList(rest)
			if err != nil {
				fail(l, err)
				continue
			}
			curLemma.Induct = append(curLemma.Induct, cl...)
		case "use":
			cl, err := parseCallList(rest)
			if err != nil {
				fail(l, err)
				continue
			}
			if curLemma != nil {
				curLemma.Uses = append(curLemma.Uses, cl...)
			} else if cur != nil {
				cur.Uses = append(cur.Uses, cl...)
			}
		case "loop":
			if cur == nil {
				fail(l, fmt.Errorf("loop outside func"))
				continue
			}
			f := strings.Fields(rest)
			if len(f) < 2 {
				fail(l, fmt.Errorf("bad loop clause"))
				continue
			}
			n, err := strconv.Atoi(f[0])
			if err != nil {
				fail(l, fmt.Errorf("bad loop ordinal %q", f[0]))
				continue
			}
			ls := cur.Loops[n]
			if ls == nil {
				ls = &LoopSpec{}
				cur.Loops[n] = ls
			}
			body := strings.TrimSpace(strings.TrimPrefix(strings.TrimSpace(strings.TrimPrefix(rest, f[0])), f[1]))
			switch f[1] {
			case "invariant":
				c, err := parseClause(body, l)
				if err != nil {
					fail(l, err)
					continue
				}
				if c.Label == "" {
					c.Label = fmt.Sprintf("inv%d", len(ls.Invs))
				}
				ls.Invs = append(ls.Invs, c)
			case "decreases":
				c, err := parseClause(body, l)
				if err != nil {
					fail(l, err)
					continue
				}
				ls.Decreases = &c
			case "use":
				cl, err := parseCallList(body)
				if err != nil {
					fail(l, err)
					continue
				}
				ls.Uses = append(ls.Uses, cl...)
			default:
				fail(l, fmt.Errorf("bad loop clause kind %q", f[1]))
			}
		case "shared":
			f := strings.Fields(rest)
			if len(f) < 2 {
				fail(l, fmt.Errorf("bad shared clause"))
				continue
			}
			sd := &SharedDecl{Pkg: pkg, Name: f[0], Kind: f[1], File: l.file, Line: l.line}
			if len(f) > 2 {
				sd.Guard = f[2]
			}
			cs.Shared = append(cs.Shared, sd)
		default:
			fail(l, fmt.Errorf("unknown clause %q", kw))
		}
	}
}

func parseSpecFunc(rest string, l cline) (*SpecFunc, error) {
	rest = strings.TrimSpace(strings.TrimPrefix(strings.TrimSpace(rest), "func"))
	p, err := newParser(rest)
	if err != nil {
		return nil, err
	}
	n := p.next()
	if n.k != "id" {
		return nil, fmt.Errorf("spec func needs a name")
	}
	if err := p.expect("("); err != nil {
		return nil, err
	}
	ps, err := parseTypedParams(p)
	if err != nil {
		return nil, err
	}
	ret := p.typeText()
	sf := &SpecFunc{Name: n.s, Params: ps, Ret: ret, File: l.file, Line: l.line}
	if p.isID("decreases") {
		p.p++
		d, err := p.parseExpr()
		if err != nil {
			return nil, err
		}
		sf.Decreases = d
	}
	if p.accept("{") {
		b, err := p.parseExpr()
		if err != nil {
			return nil, err
		}
		if err := p.expect("}"); err != nil {
			return nil, err
		}
		sf.Body = b
	}
	if p.peek().k != "eof" {
		return nil, fmt.Errorf("trailing input in spec func %s: %q", sf.Name, p.peek().s)
	}
	return sf, nil
}

func parseFuncHeader(rest string, l cline) (*FuncContract, error) {
	p, err := newParser(rest)
	if err != nil {
		return nil, err
	}
	fc := &FuncContract{Loops: map[int]*LoopSpec{}, File: l.file, Line: l.line}
	recv := ""
	if p.accept("(") {
		t := p.next()
		if t.k != "id" {
			return nil, fmt.Errorf("bad receiver")
		}
		fc.RecvName = t.s
		ty := p.typeText()
		if ty == "" { // "(T)" form without a name
			ty = t.s
			fc.RecvName = "_"
		}
		if err := p.expect(")"); err != nil {
			return nil, err
		}
		ty = strings.ReplaceAll(ty, " ", "")
		if strings.HasPrefix(ty, "*") {
			recv = "(*" + ty[1:] + ")."
		} else {
			recv = "(" + ty + ")."
		}
	}
	n := p.next()
	if n.k != "id" {
		return nil, fmt.Errorf("func needs a name")
	}
	fc.Name = recv + n.s
	if err := p.expect("("); err != nil {
		return nil, err
	}
	fc.Params, err = parseNameList(p)
	if err != nil {
		return nil, err
	}
	if p.accept("(") {
		fc.Results, err = parseNameList(p)
		if err != nil {
			return nil, err
		}
	}
	return fc, nil
}
