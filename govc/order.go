package main

// Determinism sweep (C10): Go randomises map iteration, so a `for k, v := range m` loop whose body feeds an
// order-sensitive accumulator that outlives the loop makes the function's result depend on the iteration order.
// One obligation `order:maprange` is generated for EVERY function (so a change that introduces such a loop flips an
// obligation that the baseline records as discharged). It is decided by a dataflow rule over go/ssa, not by the
// solver (backend "dataflow"):
//
//   an accumulator is  (a) a slice grown by append, or a string grown by +, inside the loop and carried around it
//                          through a header phi or through a variable cell allocated outside the loop;
//                      (b) a Write/WriteString/WriteByte/WriteRune/Fprint* on a writer or builder defined outside
//                          the loop.
//   (a) is accepted when a sort.Slice/SliceStable/Strings/Ints/Sort/Stable call on the accumulator dominates every
//   other use of it after the loop (the listing idiom of OverlayFS.ReadDir/Glob); (b) is never accepted.
//
// Writes into maps and into slice elements selected by the key are order-independent and are not accumulators; calls
// of arbitrary functions in the body are not analysed (stated in the evidence).

import (
	"fmt"
	"go/token"
	"go/types"
	"strings"

	"golang.org/x/tools/go/ssa"
)

func (e *Enc) orderObligations() {
	if e.pass == 1 {
		return
	}
	var bad []string
	nLoops := 0
	for _, li := range e.loopList {
		isMapRange := false
		for _, in := range li.header.Instrs {
			if nx, ok := in.(*ssa.Next); ok {
				if r, ok := nx.Iter.(*ssa.Range); ok {
					if _, isMap := r.X.Type().Underlying().(*types.Map); isMap {
						isMapRange = true
					}
				}
			}
		}
		if !isMapRange {
			continue
		}
		nLoops++
		for _, b := range e.fn.Blocks {
			if !li.body[b] {
				continue
			}
			for _, in := range b.Instrs {
				switch x := in.(type) {
				case *ssa.Call:
					c := x.Common()
					if bi, ok := c.Value.(*ssa.Builtin); ok && bi.Name() == "append" {
						if acc := e.carriedBy(x, li); acc != nil && !e.sortedAfter(acc, li) {
							bad = append(bad, fmt.Sprintf("loop%d: append to %s", li.ordinal, accName(acc)))
						}
						continue
					}
					name := ""
					var recv ssa.Value
					if c.IsInvoke() {
						name, recv = c.Method.Name(), c.Value
					} else if f := c.StaticCallee(); f != nil {
						name = f.Name()
						if f.Signature.Recv() != nil && len(c.Args) > 0 {
							recv = c.Args[0]
						} else if f.Pkg != nil && f.Pkg.Pkg.Path() == "fmt" && strings.HasPrefix(name, "Fprint") && len(c.Args) > 0 {
							recv = c.Args[0]
						}
					}
					switch name {
					case "Write", "WriteString", "WriteByte", "WriteRune", "Fprint", "Fprintf", "Fprintln":
						if recv != nil && definedOutside(recv, li) {
							bad = append(bad, fmt.Sprintf("loop%d: %s on a writer defined outside the loop", li.ordinal, name))
						}
					}
				case *ssa.BinOp:
					if x.Op == token.ADD {
						if bt, ok := x.Type().Underlying().(*types.Basic); ok && bt.Info()&types.IsString != 0 {
							if acc := e.carriedBy(x, li); acc != nil {
								bad = append(bad, fmt.Sprintf("loop%d: string concatenation into %s", li.ordinal, accName(acc)))
							}
						}
					}
				}
			}
		}
	}
	// reflect.Value.MapKeys returns the keys in unspecified order: the slice must be sorted before any other use
	for _, blk := range e.fn.Blocks {
		for _, in := range blk.Instrs {
			call, ok := in.(*ssa.Call)
			if !ok {
				continue
			}
			f := call.Common().StaticCallee()
			if f == nil || f.Pkg == nil || f.Pkg.Pkg.Path() != "reflect" {
				continue
			}
			switch f.Name() {
			case "MapRange":
				// harmless when the function only copies the entries into a map: it calls nothing but package
				// reflect, appends to nothing and concatenates no strings
				if !e.onlyReflectAndMapStores() {
					bad = append(bad, "reflect.Value.MapRange iterates in unspecified order")
				}
			case "MapKeys":
				nLoops++
				var acc ssa.Value = call
				if refs := call.Referrers(); refs != nil {
					for _, r := range *refs {
						if st, isStore := r.(*ssa.Store); isStore && st.Val == ssa.Value(call) {
							if cell, isCell := st.Addr.(*ssa.Alloc); isCell {
								acc = cell // the slice lives in a variable cell (captured by the comparison closure)
							}
						}
					}
				}
				if !e.sortedAfter(acc, &loopInfo{body: map[*ssa.BasicBlock]bool{}}) {
					bad = append(bad, "the keys returned by reflect.Value.MapKeys are used before they are sorted")
				}
			}
		}
	}
	goal := "true"
	if len(bad) > 0 {
		goal = "false"
	}
	o := e.addObl("order", "order:maprange", "C10.order.maprange", "true", goal)
	o.Static = "ok"
	if len(bad) > 0 {
		o.Static = "fail: the result depends on map iteration order: " + strings.Join(bad, "; ")
	}
	if len(e.fn.Blocks) > 0 {
		o.Pos = e.w.fset.Position(e.fn.Pos())
	}
}

func accName(v ssa.Value) string {
	switch x := v.(type) {
	case *ssa.Phi:
		if x.Comment != "" {
			return x.Comment
		}
	case *ssa.Alloc:
		if x.Comment != "" {
			return x.Comment
		}
	}
	return v.Name()
}

func definedOutside(v ssa.Value, li *loopInfo) bool {
	if in, ok := v.(ssa.Instruction); ok {
		if u, isLoad := v.(*ssa.UnOp); isLoad && u.Op == token.MUL {
			return definedOutside(u.X, li)
		}
		if mi, isMI := v.(*ssa.MakeInterface); isMI {
			return definedOutside(mi.X, li)
		}
		return !li.body[in.Block()]
	}
	return true // parameter, free variable, global, constant
}

// carriedBy: the header phi of loop li, or the variable cell allocated outside li, through which value v (computed in
// the loop body) reaches the next iteration / the code after the loop.
func (e *Enc) carriedBy(v ssa.Value, li *loopInfo) ssa.Value {
	seen := map[ssa.Value]bool{}
	work := []ssa.Value{v}
	for len(work) > 0 {
		x := work[len(work)-1]
		work = work[:len(work)-1]
		if seen[x] {
			continue
		}
		seen[x] = true
		refs := x.Referrers()
		if refs == nil {
			continue
		}
		for _, r := range *refs {
			switch y := r.(type) {
			case *ssa.Phi:
				if y.Block() == li.header {
					return y
				}
				if li.body[y.Block()] {
					work = append(work, y)
				}
			case *ssa.Store:
				if y.Val == x {
					if a, ok := y.Addr.(*ssa.Alloc); ok && !li.body[a.Block()] {
						return a
					}
				}
			case *ssa.Slice:
				if li.body[y.Block()] {
					work = append(work, y)
				}
			}
		}
	}
	return nil
}

func isSortCall(c *ssa.CallCommon) bool {
	f := c.StaticCallee()
	if f == nil || f.Pkg == nil {
		return false
	}
	switch f.Pkg.Pkg.Path() {
	case "sort":
		switch f.Name() {
		case "Slice", "SliceStable", "Strings", "Ints", "Float64s", "Sort", "Stable":
			return true
		}
	case "slices":
		return strings.HasPrefix(f.Name(), "Sort")
	}
	return false
}

// sortedAfter: after loop li, a sort call on accumulator acc dominates every other use of it.
func (e *Enc) sortedAfter(acc ssa.Value, li *loopInfo) bool {
	type use struct {
		in     ssa.Instruction
		isSort bool
	}
	var uses []use
	// a value use is a sort use if it is the sort call itself or a MakeInterface/ChangeType consumed only by one
	var classify func(v ssa.Value, in ssa.Instruction) (bool, ssa.Instruction)
	classify = func(v ssa.Value, in ssa.Instruction) (bool, ssa.Instruction) {
		switch y := in.(type) {
		case *ssa.Call:
			if isSortCall(y.Common()) {
				return true, y
			}
		case *ssa.MakeInterface:
			if refs := y.Referrers(); refs != nil && len(*refs) > 0 {
				all := true
				var first ssa.Instruction
				for _, r := range *refs {
					if _, isDbg := r.(*ssa.DebugRef); isDbg {
						continue
					}
					ok, s := classify(y, r)
					if !ok {
						all = false
					} else if first == nil {
						first = s
					}
				}
				if all && first != nil {
					return true, first
				}
			}
		}
		return false, in
	}
	addValueUses := func(v ssa.Value) {
		refs := v.Referrers()
		if refs == nil {
			return
		}
		for _, r := range *refs {
			if _, isDbg := r.(*ssa.DebugRef); isDbg {
				continue
			}
			if li.body[r.Block()] {
				continue
			}
			ok, s := classify(v, r)
			uses = append(uses, use{s, ok})
		}
	}
	switch a := acc.(type) {
	case *ssa.Phi:
		addValueUses(a)
	case *ssa.Call:
		addValueUses(a)
	case *ssa.Alloc:
		refs := a.Referrers()
		if refs == nil {
			return false
		}
		for _, r := range *refs {
			if li.body[r.Block()] {
				continue
			}
			switch y := r.(type) {
			case *ssa.UnOp: // load after the loop
				if y.Op == token.MUL {
					before := len(uses)
					addValueUses(y)
					if len(uses) == before {
						continue
					}
				}
			case *ssa.MakeClosure, *ssa.DebugRef, *ssa.Store:
				// binding the cell into the comparison closure, debug info, re-initialisation: not content uses
			default:
				uses = append(uses, use{r, false})
			}
		}
	default:
		return false
	}
	var sorts []ssa.Instruction
	for _, u := range uses {
		if u.isSort {
			sorts = append(sorts, u.in)
		}
	}
	if len(sorts) == 0 {
		return false
	}
	pos := func(in ssa.Instruction) int {
		for i, x := range in.Block().Instrs {
			if x == in {
				return i
			}
		}
		return -1
	}
	for _, s := range sorts {
		ok := true
		for _, u := range uses {
			if u.isSort {
				continue
			}
			sb, ub := s.Block(), u.in.Block()
			if sb == ub {
				if pos(s) > pos(u.in) {
					ok = false
				}
			} else if !sb.Dominates(ub) {
				ok = false
			}
		}
		if ok {
			return true
		}
	}
	return false
}

// onlyReflectAndMapStores: no append, no string concatenation, no call outside package reflect (builtins len/make
// aside) anywhere in the function - whatever order a MapRange yields, nothing order-sensitive can be built from it.
func (e *Enc) onlyReflectAndMapStores() bool {
	for _, blk := range e.fn.Blocks {
		for _, in := range blk.Instrs {
			switch x := in.(type) {
			case *ssa.Call:
				if b, isBuiltin := x.Common().Value.(*ssa.Builtin); isBuiltin {
					if b.Name() == "append" || b.Name() == "copy" || b.Name() == "print" || b.Name() == "println" {
						return false
					}
					continue
				}
				if x.Common().IsInvoke() {
					// a method of an interface of package reflect (reflect.Type)
					if m := x.Common().Method; m != nil && m.Pkg() != nil && m.Pkg().Path() == "reflect" {
						continue
					}
					return false
				}
				f := x.Common().StaticCallee()
				if f == nil || f.Pkg == nil || f.Pkg.Pkg.Path() != "reflect" {
					return false
				}
			case *ssa.BinOp:
				if x.Op == token.ADD {
					if bt, ok := x.X.Type().Underlying().(*types.Basic); ok && bt.Info()&types.IsString != 0 {
						return false
					}
				}
			case *ssa.Go, *ssa.Defer, *ssa.Send:
				return false
			}
		}
	}
	return true
}
