package main

// World: loaded program, contracts, and program-wide SMT tables.

import (
	"fmt"
	"go/ast"
	"go/token"
	"go/types"
	"os"
	"path/filepath"
	"sort"
	"strings"

	"golang.org/x/tools/go/packages"
	"golang.org/x/tools/go/ssa"
	"golang.org/x/tools/go/ssa/ssautil"
)

type World struct {
	repo     string
	pkgs     []*packages.Package
	pkgByID  map[string]*packages.Package
	prog     *ssa.Program
	fset     *token.FileSet
	cs       *Contracts
	so       *Sorts
	funcs    map[string]*ssa.Function // key -> function (repo packages only)
	funcIDs  map[string]int
	ctrPos   map[string]token.Pos // pkg path -> position inside its contract file (for types.Eval)
	specs    *SpecTable
	globalID map[*ssa.Global]int
	srcCache map[string][]byte
	purePats []string
	inferredPure map[string]bool
	support      map[string][]string
}

const modulePath = "github.com/titpetric/vuego"

func fnKey(fn *ssa.Function) string {
	if fn.Pkg != nil {
		return fn.Pkg.Pkg.Path() + "::" + fn.RelString(fn.Pkg.Pkg)
	}
	// methods of external types, wrappers, synthetic
	if fn.Signature.Recv() != nil {
		rt := fn.Signature.Recv().Type()
		ptr := ""
		if p, ok := rt.(*types.Pointer); ok {
			rt = p.Elem()
			ptr = "*"
		}
		if n, ok := rt.(*types.Named); ok && n.Obj().Pkg() != nil {
			return n.Obj().Pkg().Path() + "::(" + ptr + n.Obj().Name() + ")." + fn.Name()
		}
	}
	if fn.Object() != nil && fn.Object().Pkg() != nil {
		return fn.Object().Pkg().Path() + "::" + fn.Name()
	}
	return "?::" + fn.String()
}

func loadWorld(repo string, stubDirs []string) (*World, error) {
	w := &World{repo: repo, pkgByID: map[string]*packages.Package{}, funcs: map[string]*ssa.Function{}, funcIDs: map[string]int{},
		ctrPos: map[string]token.Pos{}, so: newSorts(), cs: newContracts(), globalID: map[*ssa.Global]int{}, srcCache: map[string][]byte{}}
	env := append(os.Environ(), "GOFLAGS=-mod=mod", "GOPROXY=off")
	cfg := &packages.Config{Mode: packages.LoadAllSyntax, Dir: repo, BuildFlags: []string{"-tags=verif"}, Env: env}
	pkgs, err := packages.Load(cfg, "./...")
	if err != nil {
		return nil, err
	}
	nerr := 0
	for _, p := range pkgs {
		for _, e := range p.Errors {
			fmt.Fprintf(os.Stderr, "load error: %v\n", e)
			nerr++
		}
	}
	if nerr > 0 {
		return nil, fmt.Errorf("%d package load errors", nerr)
	}
	w.pkgs = pkgs
	if len(pkgs) > 0 {
		w.fset = pkgs[0].Fset
	}
	prog, _ := ssautil.AllPackages(pkgs, ssa.GlobalDebug)
	prog.Build()
	w.prog = prog
	for _, p := range pkgs {
		w.pkgByID[p.PkgPath] = p
		sp := prog.Package(p.Types)
		if sp == nil {
			continue
		}
		for _, m := range sp.Members {
			switch f := m.(type) {
			case *ssa.Function:
				w.addFunc(f)
			case *ssa.Type:
				ms := prog.MethodSets.MethodSet(f.Type())
				for i := 0; i < ms.Len(); i++ {
					if fn := prog.MethodValue(ms.At(i)); fn != nil && fn.Pkg == sp {
						w.addFunc(fn)
					}
				}
				pms := prog.MethodSets.MethodSet(types.NewPointer(f.Type()))
				for i := 0; i < pms.Len(); i++ {
					if fn := prog.MethodValue(pms.At(i)); fn != nil && fn.Pkg == sp {
						w.addFunc(fn)
					}
				}
			}
		}
		// contracts from //@ comments of every file in the package
		for _, f := range p.Syntax {
			var lines []cline
			fname := w.fset.Position(f.Pos()).Filename
			for _, cg := range f.Comments {
				for _, c := range cg.List {
					t := c.Text
					var body string
					if strings.HasPrefix(t, "//@") {
						body = t[3:]
					} else if strings.HasPrefix(t, "// @") {
						body = t[4:]
					} else {
						continue
					}
					lines = append(lines, cline{body, fname, w.fset.Position(c.Pos()).Line})
				}
			}
			if len(lines) > 0 {
				w.cs.Parse(lines, p.PkgPath)
				if strings.HasSuffix(fname, "_verif.go") {
					w.ctrPos[p.PkgPath] = f.End() - 1
					if len(f.Decls) > 0 {
						w.ctrPos[p.PkgPath] = f.Decls[len(f.Decls)-1].End()
					}
				}
			}
		}
	}
	for _, d := range stubDirs {
		files, _ := filepath.Glob(filepath.Join(d, "*.stub"))
		sort.Strings(files)
		for _, sf := range files {
			b, err := os.ReadFile(sf)
			if err != nil {
				return nil, err
			}
			var lines []cline
			for i, l := range strings.Split(string(b), "\n") {
				t := strings.TrimSpace(l)
				if strings.HasPrefix(t, "purepattern ") {
					w.purePats = append(w.purePats, strings.Fields(t)[1:]...)
					continue
				}
				if strings.HasPrefix(t, "//@") {
					lines = append(lines, cline{t[3:], sf, i + 1})
				} else if t != "" && !strings.HasPrefix(t, "#") && !strings.HasPrefix(t, "//") {
					lines = append(lines, cline{t, sf, i + 1})
				}
			}
			w.cs.Parse(lines, "?")
		}
	}
	if len(w.cs.Errs) > 0 {
		return nil, fmt.Errorf("contract parse errors:\n  %s", strings.Join(w.cs.Errs, "\n  "))
	}
	w.specs = newSpecTable(w)
	w.inferPurity()
	return w, nil
}

func (w *World) addFunc(f *ssa.Function) {
	if f.Synthetic != "" && f.Syntax() == nil {
		return
	}
	w.funcs[fnKey(f)] = f
	for _, a := range f.AnonFuncs {
		w.addFunc(a)
	}
}

func (w *World) funcID(key string) int {
	if id, ok := w.funcIDs[key]; ok {
		return id
	}
	id := 1000 + len(w.funcIDs)
	w.funcIDs[key] = id
	return id
}

func (w *World) isRepoPkg(path string) bool {
	return path == modulePath || strings.HasPrefix(path, modulePath+"/")
}

// evalType resolves a type expression text in the scope of pkg's contract file.
func basicType(text string) (types.Type, bool) {
	t, err := (&World{}).evalTypeBasic(text)
	return t, err == nil
}

func (w *World) evalType(pkgPath, text string) (types.Type, error) {
	if t, err := w.evalTypeBasic(text); err == nil {
		return t, nil
	}
	// qualified names resolved through the whole program when no contract file scope exists
	p := w.pkgByID[pkgPath]
	if p != nil {
		pos := w.ctrPos[pkgPath]
		if tv, err := types.Eval(w.fset, p.Types, pos, text); err == nil && tv.Type != nil {
			return tv.Type, nil
		}
		if !strings.ContainsAny(text, ".[]*") {
			if o := p.Types.Scope().Lookup(text); o != nil {
				if _, ok := o.(*types.TypeName); ok {
					return o.Type(), nil
				}
			}
		}
	}
	return w.evalTypeGlobal(text)
}

func (w *World) evalTypeBasic(text string) (types.Type, error) {
	switch text {
	case "int":
		return types.Typ[types.Int], nil
	case "bool":
		return types.Typ[types.Bool], nil
	case "string":
		return types.Typ[types.String], nil
	case "byte":
		return types.Typ[types.Uint8], nil
	case "rune":
		return types.Typ[types.Int32], nil
	case "float64":
		return types.Typ[types.Float64], nil
	case "any":
		return types.NewInterfaceType(nil, nil), nil
	case "error":
		return types.Universe.Lookup("error").Type(), nil
	case "[]string":
		return types.NewSlice(types.Typ[types.String]), nil
	case "[]int":
		return types.NewSlice(types.Typ[types.Int]), nil
	case "[]byte":
		return types.NewSlice(types.Typ[types.Uint8]), nil
	case "[]any":
		return types.NewSlice(types.NewInterfaceType(nil, nil)), nil
	case "map[string]any":
		return types.NewMap(types.Typ[types.String], types.NewInterfaceType(nil, nil)), nil
	case "map[string]bool":
		return types.NewMap(types.Typ[types.String], types.Typ[types.Bool]), nil
	case "map[string]string":
		return types.NewMap(types.Typ[types.String], types.Typ[types.String]), nil
	}
	return nil, fmt.Errorf("not a basic type: %q", text)
}

// evalTypeGlobal handles []T, *T, map[K]V, pkg.T with pkg looked up by package name anywhere in the program.
func (w *World) evalTypeGlobal(text string) (types.Type, error) {
	text = strings.TrimSpace(text)
	switch {
	case strings.HasPrefix(text, "[]"):
		e, err := w.evalTypeGlobal(text[2:])
		if err != nil {
			return nil, err
		}
		return types.NewSlice(e), nil
	case strings.HasPrefix(text, "*"):
		e, err := w.evalTypeGlobal(text[1:])
		if err != nil {
			return nil, err
		}
		return types.NewPointer(e), nil
	case strings.HasPrefix(text, "map["):
		depth := 0
		for i := 3; i < len(text); i++ {
			if text[i] == '[' {
				depth++
			}
			if text[i] == ']' {
				depth--
				if depth == 0 {
					k, err := w.evalTypeGlobal(text[4:i])
					if err != nil {
						return nil, err
					}
					v, err := w.evalTypeGlobal(text[i+1:])
					if err != nil {
						return nil, err
					}
					return types.NewMap(k, v), nil
				}
			}
		}
	}
	if t, ok := basicType(text); ok {
		return t, nil
	}
	if i := strings.LastIndex(text, "."); i > 0 {
		pn, tn := text[:i], text[i+1:]
		var found types.Type
		for _, sp := range w.prog.AllPackages() {
			if sp.Pkg.Name() == pn || sp.Pkg.Path() == pn {
				if o := sp.Pkg.Scope().Lookup(tn); o != nil {
					if _, ok := o.(*types.TypeName); ok {
						if sp.Pkg.Path() == pn || found == nil {
							found = o.Type()
						}
					}
				}
			}
		}
		if found != nil {
			return found, nil
		}
	}
	return nil, fmt.Errorf("cannot resolve type %q", text)
}

func (w *World) source(file string) []byte {
	if b, ok := w.srcCache[file]; ok {
		return b
	}
	b, _ := os.ReadFile(file)
	w.srcCache[file] = b
	return b
}

// exprTextAt returns the source text of the innermost expression starting/containing pos.
func (w *World) exprTextAt(fn *ssa.Function, pos token.Pos) string {
	if !pos.IsValid() {
		return ""
	}
	p := w.fset.Position(pos)
	var file *ast.File
	if fn.Pkg != nil {
		if pk := w.pkgByID[fn.Pkg.Pkg.Path()]; pk != nil {
			for _, f := range pk.Syntax {
				if f.Pos() <= pos && pos < f.End() {
					file = f
					break
				}
			}
		}
	}
	if file == nil {
		return fmt.Sprintf("L%d", p.Line)
	}
	var best ast.Node
	ast.Inspect(file, func(n ast.Node) bool {
		if n == nil {
			return false
		}
		if n.Pos() > pos || pos >= n.End() {
			return false
		}
		switch x := n.(type) {
		case *ast.IndexExpr:
			if x.Lbrack == pos {
				best = n
			}
		case *ast.SliceExpr:
			if x.Lbrack == pos {
				best = n
			}
		case *ast.TypeAssertExpr:
			if x.Lparen == pos {
				best = n
			}
		case *ast.StarExpr:
			if x.Star == pos {
				best = n
			}
		case *ast.SelectorExpr:
			if x.Sel.Pos() == pos {
				best = n
			}
		case *ast.BinaryExpr:
			if x.OpPos == pos {
				best = n
			}
		case *ast.CallExpr:
			if x.Lparen == pos {
				best = n
			}
		}
		return true
	})
	if best == nil {
		return fmt.Sprintf("L%d", p.Line)
	}
	src := w.source(p.Filename)
	a, b := w.fset.Position(best.Pos()).Offset, w.fset.Position(best.End()).Offset
	if a < 0 || b > len(src) || a >= b {
		return fmt.Sprintf("L%d", p.Line)
	}
	t := strings.Join(strings.Fields(string(src[a:b])), " ")
	if len(t) > 80 {
		t = t[:80]
	}
	return t
}

func (w *World) isPureExternal(key string) bool {
	for _, p := range w.purePats {
		if strings.HasSuffix(p, "*") {
			if strings.HasPrefix(key, p[:len(p)-1]) {
				return true
			}
		} else if key == p {
			return true
		}
	}
	return false
}
