package main

// Function encoder: go/ssa body -> passive SMT encoding + obligations.

import (
	"fmt"
	"sync"
	"go/token"
	"go/types"
	"sort"
	"strings"

	"golang.org/x/tools/go/ssa"
)

type Obl struct {
	Fn      string // function key
	Name    string // full obligation name
	Kind    string // post, inv-init, inv-keep, decreases, call-pre, panic, frame, lock, lemma, assert
	Label   string
	NAssert int    // number of assertions visible
	Guard   string // SMT Bool: reachability
	Goal    string // SMT Bool
	Pos     token.Position
	Extra   []string // extra assertions local to this obligation
	Inputs  []string // names of SMT constants that are the function's inputs (for models)
	Results []TV     // SMT terms of the returned values (post obligations)
	Short   bool     // not in the baseline and only panic-freedom: one short solver attempt
	Static  string   // decided without the solver (dataflow rule): "ok" or "fail: <why>"
	enc     *Enc
}

type State struct {
	epoch int
	m     map[string]string
}

func (s *State) clone() *State {
	n := &State{epoch: s.epoch, m: make(map[string]string, len(s.m))}
	for k, v := range s.m {
		n.m[k] = v
	}
	return n
}

type pathElem struct {
	isIdx  bool
	field  int
	idx    string
	ssort  string // struct sort for field elems
	esort  string // element sort for idx elems
}

type Place struct {
	Kind  int // 1 local, 2 heap object (struct at ref), 3 mem cell, 4 slice element, 5 unknown
	Key   string
	Ref   string
	Idx   string
	RootT types.Type
	Path  []pathElem
	T     types.Type // pointee type after path
	NonNil bool
}

const (
	pLocal = 1
	pHeap  = 2
	pMem   = 3
	pElem  = 4
	pUnk   = 5
)

type loopInfo struct {
	header  *ssa.BasicBlock
	body    map[*ssa.BasicBlock]bool
	ordinal int
	mods    map[string]bool
	genMods map[string]bool // modified by something other than writes to freshly allocated objects
	targets map[string][]ssa.Value // components whose general writes in the loop all go to these loop-invariant objects
	all     bool
	spec    *LoopSpec
	decVal  string // measure at header
}

type deferRec struct {
	call  *ssa.Defer
	args  []TV
	guard string
}

type Enc struct {
	w        *World
	fn       *ssa.Function
	key      string
	ctr      *FuncContract
	decls    []string
	declared map[string]string
	asserts  []string
	vals     map[ssa.Value]TV
	places   map[ssa.Value]*Place
	at       map[*ssa.BasicBlock]string
	stOut    map[*ssa.BasicBlock]*State
	stIn     map[*ssa.BasicBlock]*State
	edgeCond map[[2]int]string
	obls     []*Obl
	n        int
	pass     int
	rpo      []*ssa.BasicBlock
	backEdge map[[2]int]bool
	loops    map[*ssa.BasicBlock]*loopInfo
	loopList []*loopInfo
	curBlock *ssa.BasicBlock
	st       *State
	writes   map[*ssa.BasicBlock]map[string]bool
	havocs   map[*ssa.BasicBlock]bool
	compSort map[string]string
	private  map[*ssa.Alloc]bool
	closures map[ssa.Value]*ssa.MakeClosure
	defers   []deferRec
	entry    *State
	entryVars map[string]TV
	flags    map[string]bool // imprecision / out-of-subset notes
	unmodelled map[string]bool
	callOrd  map[string]int
	panicOrd map[string]int
	ptrNonNil map[string]bool
	inputs   []string
	heldComp bool
	tuples   map[ssa.Value][]TV
	iterInfo map[ssa.Value]*iterRec
	noPanics bool
	retPosts map[string]*retPost
	retOrder []string
	retGuards []string
	retCount map[string]int
	wfSeen   map[string]bool
	refComp  map[string]bool
	assertHit map[string]int
	symCache map[int][]string
	symMu    sync.Mutex
	globalLoads map[string]string
	guardedVals map[ssa.Value][2]string
	noLocks bool
	lookupIdx int // >= 0: lookupLocal also scans the first lookupIdx instructions of the block itself
	cells    []ssa.Value // own variable cells (escaping allocs / captured variables) reachable by callees only as arguments
	sliceComp map[string]bool
	inferredUsed map[string]bool
	genWrites map[*ssa.BasicBlock]map[string]bool
	genCount  map[*ssa.BasicBlock]map[string]int
	genNotes  map[*ssa.BasicBlock]map[string][]ssa.Value // object written by a general write, when it is a known SSA value
	freshMode bool
	inlined     bool   // this encoder runs the body of a helper inside its caller
	inlineDepth int
	inlineGuard string // reachability of the call site (entry block of an inlined body)
	inlinedFns  map[string]bool
}

type iterRec struct {
	isMap  bool
	key    string // state key of iterator
	m      TV     // map or string being ranged
	kSort, vSort string
	mapT   *types.Map
}

func newEnc(w *World, fn *ssa.Function) *Enc {
	e := &Enc{w: w, fn: fn, key: fnKey(fn)}
	e.ctr = w.cs.Funcs[e.key]
	return e
}

func (e *Enc) reset() {
	e.decls = nil
	e.declared = map[string]string{}
	e.asserts = nil
	e.vals = map[ssa.Value]TV{}
	e.places = map[ssa.Value]*Place{}
	e.at = map[*ssa.BasicBlock]string{}
	e.stOut = map[*ssa.BasicBlock]*State{}
	e.stIn = map[*ssa.BasicBlock]*State{}
	e.edgeCond = map[[2]int]string{}
	e.obls = nil
	e.n = 0
	e.writes = map[*ssa.BasicBlock]map[string]bool{}
	e.genWrites = map[*ssa.BasicBlock]map[string]bool{}
	e.genCount = map[*ssa.BasicBlock]map[string]int{}
	e.genNotes = map[*ssa.BasicBlock]map[string][]ssa.Value{}
	e.havocs = map[*ssa.BasicBlock]bool{}
	e.compSort = map[string]string{}
	if e.refComp == nil {
		e.refComp = map[string]bool{}
		e.sliceComp = map[string]bool{}
	}
	e.closures = map[ssa.Value]*ssa.MakeClosure{}
	e.defers = nil
	e.flags = map[string]bool{}
	e.unmodelled = map[string]bool{}
	e.callOrd = map[string]int{}
	e.panicOrd = map[string]int{}
	e.inputs = nil
	e.tuples = map[ssa.Value][]TV{}
	e.iterInfo = map[ssa.Value]*iterRec{}
	e.entryVars = map[string]TV{}
	e.retPosts = map[string]*retPost{}
	e.retOrder = nil
	e.retGuards = nil
	e.retCount = map[string]int{}
	e.lookupIdx = -1
	e.assertHit = map[string]int{}
	e.globalLoads = map[string]string{}
	e.guardedVals = map[ssa.Value][2]string{}
	e.inferredUsed = map[string]bool{}
	e.inlinedFns = map[string]bool{}
	e.wfSeen = nil
}

func (e *Enc) fresh(hint, sort string) string {
	e.n++
	name := fmt.Sprintf("%s_%d", sanitize(hint), e.n)
	e.decls = append(e.decls, fmt.Sprintf("(declare-const %s %s)", name, sort))
	e.declared[name] = sort
	return name
}

func (e *Enc) assert(s string) {
	if s == "true" || s == "" {
		return
	}
	e.asserts = append(e.asserts, s)
}

// fact adds a fact about values of the current point: guarded by reachability when inside a block.
func (e *Enc) fact(s string) {
	if e.curBlock != nil {
		e.assume(s)
		return
	}
	e.assert(s)
}

// assume adds a fact that holds when the current block is reached.
func (e *Enc) assume(s string) {
	e.assert(imp(e.at[e.curBlock], s))
}

func (e *Enc) flag(s string) { e.flags[s] = true }

func (e *Enc) sortOf(t types.Type) string { return e.w.so.sortOf(t) }

// ---------- state ----------

func (e *Enc) compKeySort(key string) string {
	if s, ok := e.compSort[key]; ok {
		return s
	}
	panic("unknown component " + key)
}

func (e *Enc) regComp(key, sort string) string {
	e.compSort[key] = sort
	return key
}

func (e *Enc) get(st *State, key string) string {
	if v, ok := st.m[key]; ok {
		return v
	}
	name := fmt.Sprintf("%s__e%d", sanitize(key), st.epoch)
	if _, ok := e.declared[name]; !ok {
		e.decls = append(e.decls, fmt.Sprintf("(declare-const %s %s)", name, e.compKeySort(key)))
		e.declared[name] = e.compKeySort(key)
		if key == "alloc" {
			e.assert(fmt.Sprintf("(>= %s 0)", name))
		}
		if e.refComp[key] {
			st.m[key] = name
			// closure w.r.t. the allocation counter at the start of this epoch (not the current one)
			an := fmt.Sprintf("alloc__e%d", st.epoch)
			if _, ok := e.declared[an]; !ok {
				e.decls = append(e.decls, fmt.Sprintf("(declare-const %s Int)", an))
				e.declared[an] = sInt
				e.assert(fmt.Sprintf("(>= %s 0)", an))
			}
			e.closure(key, name, an)
		}
	}
	st.m[key] = name
	return name
}

func isAtom(t string) bool { return !strings.ContainsAny(t, " (") }

func (e *Enc) set(key, term string) {
	if !isAtom(term) {
		c := e.fresh("s_"+key, e.compKeySort(key))
		e.assert(eq(c, term))
		term = c
	}
	e.st.m[key] = term
	if e.curBlock != nil {
		if e.writes[e.curBlock] == nil {
			e.writes[e.curBlock] = map[string]bool{}
		}
		e.writes[e.curBlock][key] = true
		if !e.freshMode {
			if e.genWrites[e.curBlock] == nil {
				e.genWrites[e.curBlock] = map[string]bool{}
			}
			e.genWrites[e.curBlock][key] = true
			if e.genCount[e.curBlock] == nil {
				e.genCount[e.curBlock] = map[string]int{}
			}
			e.genCount[e.curBlock][key]++
		}
	}
}

// setFresh is set for updates that only touch an object allocated by the current instruction
// (loops that modify a heap component only in this way keep everything allocated before the loop).
func (e *Enc) setFresh(key, term string) {
	e.freshMode = true
	e.set(key, term)
	e.freshMode = false
}

var epochCounter int

func (e *Enc) newEpoch() int { epochCounter++; return epochCounter }

// writerGhosts: ghost maps indexed by an io.Writer value. A call without contract can change them only at the
// writer values it receives as arguments (documented assumption: the destination writer is not reachable otherwise).
var writerGhosts = []string{"G|out", "G|failed"}

func hasWriteMethod(t types.Type) bool {
	ms := types.NewMethodSet(t)
	for i := 0; i < ms.Len(); i++ {
		if ms.At(i).Obj().Name() == "Write" {
			return true
		}
	}
	return false
}

// havocAllArgs is havocAll for a call: writer ghosts survive except at the argument indices.
func (e *Enc) havocAllArgs(args []TV) {
	argSet := map[string]bool{}
	for _, a := range args {
		argSet[a.S] = true
	}
	cells := e.saveCells(func(v ssa.Value) bool { return argSet[e.vals[v].S] })
	defer e.restoreCells(cells)
	saved := map[string]string{}
	for _, k := range writerGhosts {
		if g := e.w.cs.Ghosts[strings.TrimPrefix(k, "G|")]; g != nil {
			e.ghostKey(g)
		}
		if _, ok := e.compSort[k]; ok {
			saved[k] = e.get(e.st, k)
		}
	}
	preAlloc := e.get(e.st, e.allocKey())
	e.havocAll()
	for _, k := range writerGhosts {
		old, ok := saved[k]
		if !ok {
			continue
		}
		vs := splitArraySort(strings.TrimSuffix(strings.TrimPrefix(e.compKeySort(k), "(Array "), ")"))
		t := old
		for _, a := range args {
			var idx string
			switch {
			case a.Sort == sVal:
				if a.T == nil || !hasWriteMethod(a.T) {
					continue
				}
				idx = a.S
			case a.Sort == sInt && a.T != nil && isRefType(a.T) && hasWriteMethod(a.T):
				idx = e.box(a, a.T)
			default:
				continue
			}
			t = store(t, idx, e.fresh("hvw", vs))
		}
		// writers allocated by the callee are unconstrained anyway (fresh indices were never read)
		_ = preAlloc
		if t != old && e.curBlock != nil {
			if e.writes[e.curBlock] == nil {
				e.writes[e.curBlock] = map[string]bool{}
			}
			e.writes[e.curBlock][k] = true
		}
		e.st.m[k] = t
		if !isAtom(t) {
			c := e.fresh("s_"+k, e.compKeySort(k))
			e.assert(eq(c, t))
			e.st.m[k] = c
		}
	}
}

// havocAll forgets everything except private locals and iterators.
func (e *Enc) havocAll() {
	old := e.st
	oldAlloc := e.get(old, e.allocKey())
	ns := &State{epoch: e.newEpoch(), m: map[string]string{}}
	for k, v := range old.m {
		if strings.HasPrefix(k, "L|") || strings.HasPrefix(k, "It|") {
			ns.m[k] = v
		}
	}
	e.st = ns
	na := e.get(ns, e.allocKey())
	e.assert(fmt.Sprintf("(>= %s %s)", na, oldAlloc))
	if e.curBlock != nil {
		e.havocs[e.curBlock] = true
	}
}

func (e *Enc) allocKey() string { return e.regComp("alloc", sInt) }

func (e *Enc) heapKey(structSort string, field int) string {
	info := e.w.so.structInfo[structSort]
	k := e.regComp(fmt.Sprintf("H|%s|%d", structSort, field), "(Array Int "+info.Sorts[field]+")")
	if info.GoT != nil && field < info.GoT.NumFields() && isRefType(info.GoT.Field(field).Type()) {
		e.refComp[k] = true
	}
	if info.GoT != nil && field < info.GoT.NumFields() {
		if _, isSl := info.GoT.Field(field).Type().Underlying().(*types.Slice); isSl {
			e.refComp[k] = true
			e.sliceComp[k] = true
		}
	}
	return k
}
func (e *Enc) memKey(sort string) string {
	return e.regComp("Mem|"+sort, "(Array Int "+sort+")")
}
func isRefType(t types.Type) bool {
	switch t.Underlying().(type) {
	case *types.Pointer, *types.Map:
		return true
	}
	return false
}

// arrKeyT: backing-store heap for slices of the given element type; reference-typed elements get their own heap
// so that the allocation-closure axiom (every stored reference is allocated) can be stated for it.
func (e *Enc) arrKeyT(el types.Type) string {
	if isRefType(el) {
		k := e.regComp("Arr|Int#ref", "(Array Int (Array Int Int))")
		e.refComp[k] = true
		return k
	}
	return e.arrKey(e.sortOf(el))
}

// closure asserts that every reference stored in heap component `term` is allocated w.r.t. allocTerm.
func (e *Enc) closure(key, term, allocTerm string) {
	if strings.HasPrefix(key, "Map|") {
		f := strings.Split(strings.TrimSuffix(key, "#ref"), "|")
		opt := e.w.so.optSort(f[2])
		e.assert(fmt.Sprintf("(forall ((m Int) (k %s)) (! (=> (and (<= m %s) ((_ is Some_%s) (select (select %s m) k))) (<= (get_%s (select (select %s m) k)) %s)) :pattern ((select (select %s m) k))))", f[1], allocTerm, opt, term, opt, term, allocTerm, term))
		return
	}
	if strings.HasPrefix(key, "Arr|") {
		e.assert(fmt.Sprintf("(forall ((b Int) (i Int)) (! (=> (<= b %s) (<= (select (select %s b) i) %s)) :pattern ((select (select %s b) i))))", allocTerm, term, allocTerm, term))
		return
	}
	if e.sliceComp[key] {
		e.assert(fmt.Sprintf("(forall ((x Int)) (! (=> (<= x %s) (<= (sbase (select %s x)) %s)) :pattern ((select %s x))))", allocTerm, term, allocTerm, term))
		return
	}
	e.assert(fmt.Sprintf("(forall ((x Int)) (! (=> (<= x %s) (<= (select %s x) %s)) :pattern ((select %s x))))", allocTerm, term, allocTerm, term))
}

// closureElem: same for one fresh element of the component (a field value or one backing array).
func (e *Enc) closureElem(key, elem, allocTerm string) {
	if strings.HasPrefix(key, "Map|") {
		f := strings.Split(strings.TrimSuffix(key, "#ref"), "|")
		opt := e.w.so.optSort(f[2])
		e.assert(fmt.Sprintf("(forall ((k %s)) (! (=> ((_ is Some_%s) (select %s k)) (<= (get_%s (select %s k)) %s)) :pattern ((select %s k))))", f[1], opt, elem, opt, elem, allocTerm, elem))
		return
	}
	if strings.HasPrefix(key, "Arr|") {
		e.assert(fmt.Sprintf("(forall ((i Int)) (! (<= (select %s i) %s) :pattern ((select %s i))))", elem, allocTerm, elem))
		return
	}
	if e.sliceComp[key] {
		e.assert(fmt.Sprintf("(<= (sbase %s) %s)", elem, allocTerm))
		return
	}
	e.assert(fmt.Sprintf("(<= %s %s)", elem, allocTerm))
}

func (e *Enc) arrKey(sort string) string {
	return e.regComp("Arr|"+sort, "(Array Int (Array Int "+sort+"))")
}
func (e *Enc) mapKey(ks, vs string) string {
	return e.regComp("Map|"+ks+"|"+vs, "(Array Int (Array "+ks+" "+e.w.so.optSort(vs)+"))")
}
func (e *Enc) mapKeyT(m *types.Map) string {
	ks, vs := e.sortOf(m.Key()), e.sortOf(m.Elem())
	if isRefType(m.Elem()) {
		// maps holding references get their own heap so that the allocation-closure axiom can be stated
		k := e.regComp("Map|"+ks+"|"+vs+"#ref", "(Array Int (Array "+ks+" "+e.w.so.optSort(vs)+"))")
		e.refComp[k] = true
		return k
	}
	return e.mapKey(ks, vs)
}

func (e *Enc) allocRef(hint string) string {
	a := e.get(e.st, e.allocKey())
	r := e.fresh(hint, sInt)
	e.assert(eq(r, fmt.Sprintf("(+ %s 1)", a)))
	e.setFresh(e.allocKey(), r)
	return r
}

// ---------- places ----------

func (e *Enc) placeLoad(st *State, p *Place) string {
	var root string
	path := p.Path
	switch p.Kind {
	case pLocal:
		root = e.get(st, p.Key)
	case pHeap:
		ss := e.sortOf(p.RootT)
		info := e.w.so.structInfo[ss]
		if len(path) > 0 && !path[0].isIdx {
			root = sel(e.get(st, e.heapKey(ss, path[0].field)), p.Ref)
			path = path[1:]
		} else {
			var fs []string
			for i := range info.Fields {
				fs = append(fs, sel(e.get(st, e.heapKey(ss, i)), p.Ref))
			}
			if len(fs) == 0 {
				root = "mk_" + ss
			} else {
				root = fmt.Sprintf("(mk_%s %s)", ss, strings.Join(fs, " "))
			}
		}
	case pMem:
		root = sel(e.get(st, e.memKey(e.sortOf(p.RootT))), p.Ref)
	case pElem:
		root = sel(sel(e.get(st, e.arrKeyT(p.RootT)), p.Ref), p.Idx)
	default:
		return e.fresh("unkload", e.sortOf(p.T))
	}
	for _, pe := range path {
		if pe.isIdx {
			root = sel(root, pe.idx)
		} else {
			info := e.w.so.structInfo[pe.ssort]
			root = fmt.Sprintf("(%s %s)", info.Fields[pe.field], root)
		}
	}
	return root
}

func (e *Enc) updatePath(cur string, path []pathElem, v string) string {
	if len(path) == 0 {
		return v
	}
	pe := path[0]
	if pe.isIdx {
		return store(cur, pe.idx, e.updatePath(sel(cur, pe.idx), path[1:], v))
	}
	info := e.w.so.structInfo[pe.ssort]
	var fs []string
	for i, f := range info.Fields {
		fv := fmt.Sprintf("(%s %s)", f, cur)
		if i == pe.field {
			fv = e.updatePath(fv, path[1:], v)
		}
		fs = append(fs, fv)
	}
	return fmt.Sprintf("(mk_%s %s)", pe.ssort, strings.Join(fs, " "))
}

func (e *Enc) placeStore(p *Place, v string) {
	path := p.Path
	switch p.Kind {
	case pLocal:
		e.set(p.Key, e.updatePath(e.get(e.st, p.Key), path, v))
	case pHeap:
		ss := e.sortOf(p.RootT)
		info := e.w.so.structInfo[ss]
		if len(path) > 0 && !path[0].isIdx {
			k := e.heapKey(ss, path[0].field)
			h := e.get(e.st, k)
			e.set(k, store(h, p.Ref, e.updatePath(sel(h, p.Ref), path[1:], v)))
		} else {
			for i, f := range info.Fields {
				k := e.heapKey(ss, i)
				e.set(k, store(e.get(e.st, k), p.Ref, fmt.Sprintf("(%s %s)", f, v)))
			}
		}
	case pMem:
		k := e.memKey(e.sortOf(p.RootT))
		h := e.get(e.st, k)
		e.set(k, store(h, p.Ref, e.updatePath(sel(h, p.Ref), path, v)))
	case pElem:
		k := e.arrKeyT(p.RootT)
		h := e.get(e.st, k)
		a := sel(h, p.Ref)
		e.set(k, store(h, p.Ref, store(a, p.Idx, e.updatePath(sel(a, p.Idx), path, v))))
	default:
		e.flag("store-through-unmodelled-pointer")
		e.havocAll()
	}
}

func deref(t types.Type) types.Type {
	if p, ok := t.Underlying().(*types.Pointer); ok {
		return p.Elem()
	}
	return t
}

func isStruct(t types.Type) bool {
	_, ok := t.Underlying().(*types.Struct)
	return ok
}

// placeOf gives the place a pointer-typed SSA value points to.
func (e *Enc) placeOf(v ssa.Value) *Place {
	if p, ok := e.places[v]; ok {
		return p
	}
	t := deref(v.Type())
	r := e.val(v)
	if isStruct(t) {
		return &Place{Kind: pHeap, Ref: r.S, RootT: t, T: t, NonNil: e.ptrNonNil[r.S]}
	}
	return &Place{Kind: pMem, Ref: r.S, RootT: t, T: t, NonNil: e.ptrNonNil[r.S]}
}

// ---------- values ----------

func (e *Enc) val(v ssa.Value) TV {
	if tv, ok := e.vals[v]; ok {
		return tv
	}
	switch x := v.(type) {
	case *ssa.Const:
		t := x.Type()
		s := e.sortOf(t)
		if x.Value == nil {
			return TV{e.w.so.zeroSort(s), s, t}
		}
		if c, ok := e.w.so.constTerm(x.Value, t); ok {
			return TV{c, s, t}
		}
		return TV{e.fresh("const", s), s, t}
	case *ssa.Function:
		return TV{smtInt(int64(e.w.funcID(fnKey(x)))), sInt, x.Type()}
	case *ssa.Global:
		id, ok := e.w.globalID[x]
		if !ok {
			id = len(e.w.globalID) + 1
			e.w.globalID[x] = id
		}
		return TV{smtInt(int64(-id)), sInt, x.Type()}
	case *ssa.Builtin:
		return TV{"0", sInt, x.Type()}
	}
	if pl, ok := e.places[v]; ok {
		// interior pointer used as a value: the address of a field of a heap object is a function of (object, field)
		if pl.Kind == pHeap && len(pl.Path) == 1 && !pl.Path[0].isIdx {
			c := e.fresh("faddr", sInt)
			e.assert(eq(c, fmt.Sprintf("(fieldaddr %s %d)", pl.Ref, pl.Path[0].field)))
			e.assert(fmt.Sprintf("(and (= (fa_ref %s) %s) (= (fa_idx %s) %d) (> %s 0))", c, pl.Ref, c, pl.Path[0].field, c))
			tv := TV{c, sInt, v.Type()}
			e.vals[v] = tv
			e.ptrNonNil[c] = true
			return tv
		}
		e.flag("interior-pointer-escapes")
		tv := TV{e.fresh("iptr", sInt), sInt, v.Type()}
		e.vals[v] = tv
		return tv
	}
	// value not yet defined (should only happen for back-edge phi operands): havoc
	s := e.sortOf(v.Type())
	tv := TV{e.fresh("undef_"+v.Name(), s), s, v.Type()}
	e.vals[v] = tv
	return tv
}

func (e *Enc) setVal(v ssa.Value, s string) {
	if len(s) > 100 {
		c := e.fresh(v.Name(), e.sortOf(v.Type()))
		e.assert(eq(c, s))
		s = c
	}
	e.vals[v] = TV{s, e.sortOf(v.Type()), v.Type()}
}

func (e *Enc) havocVal(v ssa.Value) string {
	t := v.Type()
	if tup, ok := t.(*types.Tuple); ok {
		var tvs []TV
		for i := 0; i < tup.Len(); i++ {
			s := e.sortOf(tup.At(i).Type())
			c := e.fresh(v.Name()+"_r", s)
			tvs = append(tvs, TV{c, s, tup.At(i).Type()})
			e.typeFacts(c, tup.At(i).Type())
		}
		e.tuples[v] = tvs
		return ""
	}
	s := e.sortOf(t)
	c := e.fresh(v.Name(), s)
	e.vals[v] = TV{c, s, t}
	e.typeFacts(c, t)
	return c
}

// typeFacts adds well-formedness facts for a fresh value of a Go type.
func (e *Enc) typeFacts(c string, t types.Type) {
	switch u := t.Underlying().(type) {
	case *types.Basic:
		if u.Info()&types.IsInteger != 0 {
			if u.Info()&types.IsUnsigned != 0 {
				e.fact(fmt.Sprintf("(>= %s 0)", c))
			}
			switch u.Kind() {
			case types.Uint8:
				e.fact(fmt.Sprintf("(<= %s 255)", c))
			case types.Int32:
				e.fact(fmt.Sprintf("(and (<= (- 2147483648) %s) (<= %s 2147483647))", c, c))
			}
		}
	case *types.Interface:
		e.fact(fmt.Sprintf("(wfVal %s)", c))
	case *types.Slice:
		e.fact(fmt.Sprintf("(and (>= (slen %s) 0) (>= (sbase %s) 0) (=> (= (sbase %s) 0) (= (slen %s) 0)))", c, c, c, c))
	case *types.Pointer, *types.Map:
		e.fact(fmt.Sprintf("(>= %s (- 100000))", c))
	}
}

func sortedBlocks(m map[*ssa.BasicBlock]bool) []*ssa.BasicBlock {
	var bs []*ssa.BasicBlock
	for b := range m {
		bs = append(bs, b)
	}
	sort.Slice(bs, func(i, j int) bool { return bs[i].Index < bs[j].Index })
	return bs
}

// noteTarget records that the general write just made to component key went to the object denoted by v.
func (e *Enc) noteTarget(key string, v ssa.Value) {
	if e.curBlock == nil {
		return
	}
	if e.genNotes[e.curBlock] == nil {
		e.genNotes[e.curBlock] = map[string][]ssa.Value{}
	}
	e.genNotes[e.curBlock][key] = append(e.genNotes[e.curBlock][key], v)
}
