package main

// Bounded stand-ins: functions outside the verifier's subset (reflection) are checked exhaustively up to a stated
// bound by an in-package test injected with `go test -overlay` (nothing is written into /repo). They are labelled
// "bounded" in the evidence and are never counted as proved. Files: /verif/bounded/<Cxx[+Cyy]>__<name>__<pkgdir>.go.txt
// (pkgdir "root" = module root, otherwise path with '/' written as '.').

import (
	"encoding/json"
	"fmt"
	"os"
	"os/exec"
	"path/filepath"
	"strings"
	"time"
)

type boundedResult struct {
	Name     string   `json:"name"`
	Summary  string   `json:"summary"`
	Failures []string `json:"failures"`
	Seconds  float64  `json:"seconds"`
	Races    int      `json:"data_races"`
	Known    map[string]string `json:"known_keys,omitempty"` // BOUNDED-KNOWN key=<k> lines: cases the stand-in itself classifies as a known defect shape
	Status   string   `json:"status"` // bounded-pass | bounded-fail | error
	Cmd      string   `json:"cmd"`
}

// firstRace: the first frames of the first race report (the two conflicting accesses).
func firstRace(out string) string {
	i := strings.Index(out, "WARNING: DATA RACE")
	if i < 0 {
		return ""
	}
	var keep []string
	for _, l := range strings.Split(out[i:], "\n") {
		t := strings.TrimSpace(l)
		if strings.HasPrefix(t, "/") || strings.HasPrefix(t, "github.com/titpetric/vuego") {
			keep = append(keep, t)
		}
		if len(keep) >= 6 || strings.HasPrefix(t, "Goroutine") {
			break
		}
	}
	return strings.Join(keep, " <- ")
}

func firstOr(xs []string) string {
	if len(xs) == 0 {
		return "(none)"
	}
	return xs[0]
}

// The tier is handed to the stand-ins as GOVC_TIER: under "thorough" some of them widen their bounds (stated in their
// header comments and printed in their BOUNDED-SUMMARY line).
func runBounded(repo, verif, prop, tier string) []boundedResult {
	files, _ := filepath.Glob(filepath.Join(verif, "bounded", "*.go.txt"))
	var out []boundedResult
	for _, f := range files {
		parts := strings.Split(strings.TrimSuffix(filepath.Base(f), ".go.txt"), "__")
		if len(parts) != 3 {
			continue
		}
		serves := false
		for _, p := range strings.Split(parts[0], "+") {
			serves = serves || p == prop
		}
		if !serves {
			continue
		}
		pkgDir := repo
		if parts[2] != "root" {
			pkgDir = filepath.Join(repo, strings.ReplaceAll(parts[2], ".", "/"))
		}
		tmp, err := os.MkdirTemp(os.Getenv("TMPDIR"), "govc-bounded-")
		if err != nil {
			continue
		}
		ov, _ := json.Marshal(map[string]any{"Replace": map[string]string{filepath.Join(pkgDir, "zz_govc_bounded_test.go"): f}})
		ovFile := filepath.Join(tmp, "overlay.json")
		os.WriteFile(ovFile, ov, 0o644)
		timeout := "300s"
		if tier == "thorough" {
			timeout = "1500s"
		}
		argv := []string{"test", "-tags", "verif", "-overlay", ovFile, "-vet=off", "-count=1", "-v", "-timeout", timeout, "-run", "^TestBounded"}
		race := false
		if src, err := os.ReadFile(f); err == nil && strings.Contains(string(src), "// govc:race") {
			// the stand-in asks for the race detector (C09): a reported data race is a bounded failure
			argv = append(argv, "-race")
			race = true
		}
		cmd := exec.Command("go", append(argv, ".")...)
		cmd.Dir = pkgDir
		cmd.Env = append(os.Environ(), "GOFLAGS=-mod=mod", "GOPROXY=off", "GOVC_TIER="+tier)
		t0 := time.Now()
		b, _ := cmd.CombinedOutput()
		os.RemoveAll(tmp)
		r := boundedResult{Name: parts[1], Seconds: round3(time.Since(t0).Seconds()),
			Cmd: fmt.Sprintf("(cd %s && go test -tags verif -overlay <%s as zz_govc_bounded_test.go> -vet=off -count=1 -v -run '^TestBounded' .)", pkgDir, f)}
		for _, l := range strings.Split(string(b), "\n") {
			if i := strings.Index(l, "BOUNDED-SUMMARY"); i >= 0 {
				r.Summary = strings.TrimSpace(l[i:])
			}
			if i := strings.Index(l, "BOUNDED-FAIL"); i >= 0 && len(r.Failures) < 10 {
				r.Failures = append(r.Failures, strings.TrimSpace(l[i:]))
			}
			if race && strings.Contains(l, "WARNING: DATA RACE") {
				r.Races++
			}
			if i := strings.Index(l, "BOUNDED-KNOWN key="); i >= 0 {
				rest := strings.TrimSpace(l[i+len("BOUNDED-KNOWN key="):])
				key := rest
				if j := strings.IndexAny(rest, " \t"); j >= 0 {
					key = rest[:j]
				}
				if r.Known == nil {
					r.Known = map[string]string{}
				}
				if _, seen := r.Known[key]; !seen {
					r.Known[key] = rest
				}
			}
		}
		if r.Races > 0 {
			r.Failures = append([]string{fmt.Sprintf("BOUNDED-FAIL the race detector reported %d data race(s); first report: %s", r.Races, firstRace(string(b)))}, r.Failures...)
		}
		switch {
		case r.Summary == "" && r.Races == 0:
			r.Status = "error"
			r.Failures = append(r.Failures, firstLines(string(b), 8))
		case len(r.Failures) > 0 || !strings.Contains(r.Summary, "failures=0"):
			r.Status = "bounded-fail"
		default:
			r.Status = "bounded-pass"
		}
		out = append(out, r)
	}
	return out
}
