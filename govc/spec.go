package main

// Spec functions (define-fun / define-fun-rec / declare-fun) and lemma obligations.

import (
	"fmt"
	"go/types"
	"regexp"
	"sort"
	"strings"
)

type specDef struct {
	sf       *SpecFunc
	params   []TV
	ret      string
	retT     types.Type
	deps     []string
	depSorts []string
	body     string
	rec      bool
	calls    map[string]bool
	err      error
}

type SpecTable struct {
	w     *World
	defs  map[string]*specDef
	order []string
	enc   *Enc
	cur   *specDef // definition being translated
}

func (w *World) specialSort(pkg, text string) (string, types.Type, error) {
	switch text {
	case "Val":
		return sVal, types.NewInterfaceType(nil, nil), nil
	case "set[string]":
		return "(Array String Bool)", nil, nil
	case "":
		return sBool, types.Typ[types.Bool], nil
	}
	t, err := w.evalType(pkg, text)
	if err != nil {
		return "", nil, err
	}
	return w.so.sortOf(t), t, nil
}

func newSpecTable(w *World) *SpecTable {
	t := &SpecTable{w: w, defs: map[string]*specDef{}}
	w.specs = t
	t.enc = &Enc{w: w}
	t.enc.reset()
	t.enc.st = &State{m: map[string]string{}}
	t.enc.entry = t.enc.st
	for _, name := range sortedKeys(w.cs.Specs) {
		sf := w.cs.Specs[name]
		d := &specDef{sf: sf, calls: map[string]bool{}}
		for _, p := range sf.Params {
			s, ty, err := w.specialSort(sf.Pkg, p.Type)
			if err != nil {
				d.err = fmt.Errorf("spec %s: %v", name, err)
			}
			d.params = append(d.params, TV{"a_" + sanitize(p.Name), s, ty})
		}
		s, ty, err := w.specialSort(sf.Pkg, sf.Ret)
		if err != nil {
			d.err = fmt.Errorf("spec %s: %v", name, err)
		}
		d.ret, d.retT = s, ty
		t.defs[name] = d
	}
	// fixpoint on hidden heap dependencies
	for round := 0; round < 10; round++ {
		changed := false
		for _, name := range sortedKeys(t.defs) {
			d := t.defs[name]
			if d.sf.Body == nil || d.err != nil {
				continue
			}
			old := strings.Join(d.deps, ",")
			t.translate(d)
			if strings.Join(d.deps, ",") != old {
				changed = true
			}
		}
		if !changed {
			break
		}
	}
	// order: dependencies first
	visited := map[string]int{}
	var visit func(n string)
	visit = func(n string) {
		if visited[n] != 0 {
			return
		}
		visited[n] = 1
		d := t.defs[n]
		for _, c := range sortedKeys(d.calls) {
			if c == n {
				d.rec = true
				continue
			}
			if visited[c] == 1 {
				d.err = fmt.Errorf("mutual recursion between spec functions %s and %s is not supported", n, c)
				continue
			}
			visit(c)
		}
		visited[n] = 2
		t.order = append(t.order, n)
	}
	for _, name := range sortedKeys(t.defs) {
		visit(name)
	}
	return t
}

func (t *SpecTable) translate(d *specDef) {
	e := t.enc
	env := e.newEnv(d.sf.Pkg)
	env.st = e.st
	env.old = e.st
	env.spec = &specCtx{depOf: map[string]string{}}
	for i, p := range d.sf.Params {
		env.vars[p.Name] = d.params[i]
	}
	d.calls = map[string]bool{}
	prev := t.cur
	t.cur = d
	body, err := e.evalExpr(d.sf.Body, env)
	t.cur = prev
	if err != nil {
		d.err = fmt.Errorf("spec %s: %v", d.sf.Name, err)
		return
	}
	if body.Sort != d.ret {
		d.err = fmt.Errorf("spec %s: body has sort %s, declared %s", d.sf.Name, body.Sort, d.ret)
		return
	}
	d.body = body.S
	// stable order of deps
	deps := append([]string{}, env.spec.deps...)
	sort.Strings(deps)
	d.deps = deps
	d.depSorts = nil
	for _, k := range deps {
		d.depSorts = append(d.depSorts, e.compKeySort(k))
	}
}

func (t *SpecTable) call(e *Enc, sf *SpecFunc, args []TV, env *Env) (TV, error) {
	d := t.defs[sf.Name]
	if d == nil {
		return TV{}, fmt.Errorf("unknown spec function %s", sf.Name)
	}
	if d.err != nil {
		return TV{}, d.err
	}
	if len(args) != len(d.params) {
		return TV{}, fmt.Errorf("spec %s expects %d arguments, got %d", sf.Name, len(d.params), len(args))
	}
	if t.cur != nil {
		t.cur.calls[sf.Name] = true
	}
	var as []string
	for i, a := range args {
		if a.Sort == "nil" {
			a = TV{e.nilOf(d.params[i]), d.params[i].Sort, d.params[i].T}
		}
		if a.Sort != d.params[i].Sort {
			return TV{}, fmt.Errorf("spec %s: argument %d has sort %s, want %s", sf.Name, i, a.Sort, d.params[i].Sort)
		}
		as = append(as, a.S)
	}
	for i, k := range d.deps {
		e.regComp(k, d.depSorts[i])
		as = append(as, env.getComp(k, false))
	}
	if len(as) == 0 {
		return TV{"spec_" + sf.Name, d.ret, d.retT}, nil
	}
	return TV{fmt.Sprintf("(spec_%s %s)", sf.Name, strings.Join(as, " ")), d.ret, d.retT}, nil
}

var specRefRe = regexp.MustCompile(`spec_[A-Za-z0-9_]+`)

// definitions returns the SMT definitions of all spec functions referenced (transitively) from text.
func (t *SpecTable) definitions(text string) (string, bool) {
	need := map[string]bool{}
	var add func(s string)
	add = func(s string) {
		for _, m := range specRefRe.FindAllString(s, -1) {
			n := strings.TrimPrefix(m, "spec_")
			if need[n] || t.defs[n] == nil {
				continue
			}
			need[n] = true
			add(t.defs[n].body)
		}
	}
	add(text)
	var b strings.Builder
	hasRec := false
	for _, n := range t.order {
		if !need[n] {
			continue
		}
		d := t.defs[n]
		var ps []string
		for _, p := range d.params {
			ps = append(ps, fmt.Sprintf("(%s %s)", p.S, p.Sort))
		}
		for i, k := range d.deps {
			ps = append(ps, fmt.Sprintf("(hp_%s %s)", sanitize(k), d.depSorts[i]))
		}
		if d.sf.Body == nil {
			var ss []string
			for _, p := range d.params {
				ss = append(ss, p.Sort)
			}
			fmt.Fprintf(&b, "(declare-fun spec_%s (%s) %s)\n", n, strings.Join(ss, " "), d.ret)
			continue
		}
		kw := "define-fun"
		if d.rec {
			kw = "define-fun-rec"
			hasRec = true
		}
		fmt.Fprintf(&b, "(%s spec_%s (%s) %s %s)\n", kw, n, strings.Join(ps, " "), d.ret, d.body)
	}
	return b.String(), hasRec
}

func (t *SpecTable) errors() []string {
	var out []string
	for _, n := range sortedKeys(t.defs) {
		if t.defs[n].err != nil {
			out = append(out, t.defs[n].err.Error())
		}
	}
	return out
}

// lemmaObligations builds one obligation per lemma (proof by the stated induction).
func (w *World) lemmaObligations() []*Obl {
	var out []*Obl
	for _, name := range sortedKeys(w.cs.Lemmas) {
		lm := w.cs.Lemmas[name]
		if lm.Axiom {
			continue
		}
		e := &Enc{w: w, key: "lemma::" + name}
		e.reset()
		e.pass = 2
		e.st = &State{m: map[string]string{}}
		e.entry = e.st
		env := e.newEnv(lm.Pkg)
		env.st, env.old = e.st, e.st
		bad := false
		for _, p := range lm.Params {
			s, ty, err := w.specialSort(lm.Pkg, p.Type)
			if err != nil {
				e.contractError("param", err)
				bad = true
				continue
			}
			c := e.fresh("l_"+p.Name, s)
			env.vars[p.Name] = TV{c, s, ty}
			if ty != nil {
				e.typeFacts(c, ty)
			}
		}
		if bad {
			out = append(out, e.obls...)
			continue
		}
		for _, r := range lm.Requires {
			tm, err := e.evalBool(r.E, env)
			if err != nil {
				e.contractError("requires", err)
				continue
			}
			e.assert(tm)
		}
		for _, u := range lm.Uses {
			e.useLemma(u, env)
		}
		// induction hypotheses
		if lm.Decreases != nil {
			m0, err := e.evalExpr(lm.Decreases, env)
			if err != nil {
				e.contractError("decreases", err)
			} else {
				for _, ih := range lm.Induct {
					if len(ih.Args) != len(lm.Params) {
						e.contractError("induct", fmt.Errorf("wrong argument count"))
						continue
					}
					c := env.child()
					okArgs := true
					for i, p := range lm.Params {
						a, err := e.evalExpr(ih.Args[i], env)
						if err != nil {
							e.contractError("induct", err)
							okArgs = false
							break
						}
						c.vars[p.Name] = a
					}
					if !okArgs {
						continue
					}
					m1, err := e.evalExpr(lm.Decreases, c)
					if err != nil {
						e.contractError("induct", err)
						continue
					}
					var reqs, enss []string
					for _, r := range lm.Requires {
						tm, _ := e.evalBool(r.E, c)
						reqs = append(reqs, tm)
					}
					for _, r := range lm.Ensures {
						tm, _ := e.evalBool(r.E, c)
						enss = append(enss, tm)
					}
					e.assert(imp(and(append(reqs, fmt.Sprintf("(<= 0 %s)", m1.S), fmt.Sprintf("(< %s %s)", m1.S, m0.S))...), and(enss...)))
				}
			}
		}
		for i, r := range lm.Ensures {
			tm, err := e.evalBool(r.E, env)
			if err != nil {
				e.contractError("ensures", err)
				continue
			}
			lab := r.Label
			if lab == "" {
				lab = fmt.Sprintf("ens%d", i)
			}
			e.addObl("lemma", "lemma:"+lab, lab, "true", tm)
		}
		out = append(out, e.obls...)
	}
	return out
}
