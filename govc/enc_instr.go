package main

import (
	"fmt"
	"go/token"
	"go/types"
	"strconv"
	"strings"

	"golang.org/x/tools/go/ssa"
)

func (e *Enc) instr(in ssa.Instruction) {
	switch x := in.(type) {
	case *ssa.DebugRef:
	case *ssa.Phi:
		e.phi(x)
	case *ssa.Alloc:
		e.alloc(x)
	case *ssa.FieldAddr:
		base := e.placeOf(x.X)
		st := deref(x.X.Type())
		e.nilCheck(base, x)
		np := *base
		np.Path = append(append([]pathElem{}, base.Path...), pathElem{field: x.Field, ssort: e.sortOf(st)})
		np.T = st.Underlying().(*types.Struct).Field(x.Field).Type()
		np.NonNil = true
		e.places[x] = &np
	case *ssa.Field:
		xv := e.val(x.X)
		info := e.w.so.structInfo[xv.Sort]
		if info == nil {
			e.havocVal(x)
			return
		}
		e.setVal(x, fmt.Sprintf("(%s %s)", info.Fields[x.Field], xv.S))
	case *ssa.IndexAddr:
		idx := e.val(x.Index).S
		switch t := x.X.Type().Underlying().(type) {
		case *types.Slice:
			s := e.val(x.X)
			e.panicObl("index", x, fmt.Sprintf("(and (<= 0 %s) (< %s (slen %s)))", idx, idx, s.S))
			e.places[x] = &Place{Kind: pElem, Ref: "(sbase " + s.S + ")", Idx: idx, RootT: t.Elem(), T: t.Elem(), NonNil: true}
		case *types.Pointer:
			arr := t.Elem().Underlying().(*types.Array)
			base := e.placeOf(x.X)
			e.nilCheck(base, x)
			e.panicObl("index", x, fmt.Sprintf("(and (<= 0 %s) (< %s %d))", idx, idx, arr.Len()))
			np := *base
			np.Path = append(append([]pathElem{}, base.Path...), pathElem{isIdx: true, idx: idx, esort: e.sortOf(arr.Elem())})
			np.T = arr.Elem()
			np.NonNil = true
			e.places[x] = &np
		default:
			e.places[x] = &Place{Kind: pUnk, T: deref(x.Type())}
		}
	case *ssa.Index:
		idx := e.val(x.Index).S
		xv := e.val(x.X)
		switch t := x.X.Type().Underlying().(type) {
		case *types.Array:
			e.panicObl("index", x, fmt.Sprintf("(and (<= 0 %s) (< %s %d))", idx, idx, t.Len()))
			e.setVal(x, sel(xv.S, idx))
		case *types.Basic: // string
			e.panicObl("index", x, fmt.Sprintf("(and (<= 0 %s) (< %s (str.len %s)))", idx, idx, xv.S))
			e.setVal(x, fmt.Sprintf("(byteAt %s %s)", xv.S, idx))
			e.assume(fmt.Sprintf("(and (<= 0 (byteAt %s %s)) (<= (byteAt %s %s) 255))", xv.S, idx, xv.S, idx))
		default:
			e.havocVal(x)
		}
	case *ssa.Lookup:
		e.lookup(x)
	case *ssa.UnOp:
		e.unop(x)
	case *ssa.BinOp:
		e.binop(x)
	case *ssa.Store:
		p := e.placeOf(x.Addr)
		e.nilCheck(p, x)
		e.frameCheckStore(p, x)
		v := e.val(x.Val)
		e.placeStore(p, v.S)
	case *ssa.Call:
		e.assertsAt(x)
		e.call(x, x.Common(), x)
	case *ssa.Extract:
		if tv, ok := e.tuples[x.Tuple]; ok && x.Index < len(tv) {
			e.vals[x] = tv[x.Index]
		} else {
			e.havocVal(x)
		}
	case *ssa.MakeInterface:
		e.setVal(x, e.box(e.val(x.X), x.X.Type()))
	case *ssa.TypeAssert:
		e.typeAssert(x)
	case *ssa.ChangeInterface:
		e.setVal(x, e.val(x.X).S)
	case *ssa.ChangeType:
		e.setVal(x, e.val(x.X).S)
	case *ssa.Convert:
		e.convert(x)
	case *ssa.Slice:
		e.slice(x)
	case *ssa.MakeSlice:
		n := e.val(x.Len).S
		e.panicObl("makeslice", x, fmt.Sprintf("(>= %s 0)", n))
		el := x.Type().Underlying().(*types.Slice).Elem()
		es := e.sortOf(el)
		r := e.allocRef("mkslice")
		k := e.arrKeyT(el)
		e.setFresh(k, store(e.get(e.st, k), r, fmt.Sprintf("((as const (Array Int %s)) %s)", es, e.w.so.zeroSort(es))))
		e.setVal(x, fmt.Sprintf("(mkslice %s %s)", r, n))
	case *ssa.MakeMap:
		mt := x.Type().Underlying().(*types.Map)
		r := e.allocRef("mkmap")
		k := e.mapKeyT(mt)
		e.setFresh(k, store(e.get(e.st, k), r, e.emptyMap(mt)))
		e.setVal(x, r)
		e.ptrNonNil[r] = true
	case *ssa.MapUpdate:
		m := e.val(x.Map)
		mt := x.Map.Type().Underlying().(*types.Map)
		e.panicObl("nilmap", x, fmt.Sprintf("(not (= %s 0))", m.S))
		e.lockCheckWrite(x.Map, x)
		e.frameCheckRef("map", m.S, x)
		k := e.mapKeyT(mt)
		h := e.get(e.st, k)
		opt := e.w.so.optSort(e.sortOf(mt.Elem()))
		e.set(k, store(h, m.S, store(sel(h, m.S), e.val(x.Key).S, fmt.Sprintf("(Some_%s %s)", opt, e.val(x.Value).S))))
		e.noteTarget(k, x.Map)
	case *ssa.MakeClosure:
		e.closures[x] = x
		e.setVal(x, e.fresh("closure", sInt))
		e.assume(fmt.Sprintf("(> %s 0)", e.vals[x].S))
	case *ssa.Range:
		e.rangeInstr(x)
	case *ssa.Next:
		e.next(x)
	case *ssa.Defer:
		var args []TV
		for _, a := range x.Call.Args {
			args = append(args, e.val(a))
		}
		e.defers = append(e.defers, deferRec{call: x, args: args, guard: e.at[e.curBlock]})
	case *ssa.RunDefers:
		for i := len(e.defers) - 1; i >= 0; i-- {
			d := e.defers[i]
			e.deferredCall(d)
		}
	case *ssa.Return:
		e.ret(x)
	case *ssa.Panic:
		if !e.noPanics {
			txt := e.w.exprTextAt(e.fn, x.Pos())
			o := e.addObl("panic", "panic:explicit:"+txt, "", e.at[e.curBlock], "false")
			o.Pos = e.w.fset.Position(x.Pos())
		}
	case *ssa.If:
		c := e.val(x.Cond).S
		b := e.curBlock
		at := e.at[b]
		if b.Succs[0] == b.Succs[1] {
			e.edgeCond[[2]int{b.Index, b.Succs[0].Index}] = at
		} else {
			e.edgeCond[[2]int{b.Index, b.Succs[0].Index}] = and(at, c)
			e.edgeCond[[2]int{b.Index, b.Succs[1].Index}] = and(at, not(c))
		}
		e.finishBlock()
	case *ssa.Jump:
		b := e.curBlock
		e.edgeCond[[2]int{b.Index, b.Succs[0].Index}] = e.at[b]
		e.finishBlock()
	case *ssa.Go, *ssa.Select, *ssa.Send, *ssa.MakeChan:
		e.flag("out-of-subset:concurrency")
		if v, ok := in.(ssa.Value); ok {
			e.havocVal(v)
		}
		e.havocAll()
	default:
		e.flag(fmt.Sprintf("unmodelled-instr:%T", in))
		if v, ok := in.(ssa.Value); ok {
			e.havocVal(v)
		}
	}
}

func (e *Enc) finishBlock() {
	b := e.curBlock
	for _, s := range b.Succs {
		if e.backEdge[[2]int{b.Index, s.Index}] {
			e.loopBackObligations(e.loops[s], b)
		}
	}
}

func (e *Enc) nilCheck(p *Place, in ssa.Instruction) {
	if p.NonNil || (p.Kind != pHeap && p.Kind != pMem) {
		return
	}
	if e.ptrNonNil[p.Ref] {
		return
	}
	e.panicObl("nil", in, fmt.Sprintf("(not (= %s 0))", p.Ref))
	e.ptrNonNil[p.Ref] = true
}

func (e *Enc) phi(x *ssa.Phi) {
	b := x.Block()
	if _, isHeader := e.loops[b]; isHeader {
		return // handled by havocLoop
	}
	s := e.sortOf(x.Type())
	// pointer-place phis are not modelled
	c := e.fresh(x.Name(), s)
	for i, p := range b.Preds {
		if _, done := e.stOut[p]; !done {
			continue
		}
		ev := x.Edges[i]
		if _, isPlace := e.places[ev]; isPlace {
			e.flag("interior-pointer-phi")
			continue
		}
		e.assert(imp(e.edgeTerm(p, b), eq(c, e.val(ev).S)))
	}
	e.vals[x] = TV{c, s, x.Type()}
}

func (e *Enc) alloc(x *ssa.Alloc) {
	t := deref(x.Type())
	if e.private[x] {
		key := e.regComp("L|"+x.Name(), e.sortOf(t))
		e.set(key, e.w.so.zero(t))
		e.places[x] = &Place{Kind: pLocal, Key: key, RootT: t, T: t, NonNil: true}
		return
	}
	r := e.allocRef(x.Name())
	e.setVal(x, r)
	e.ptrNonNil[r] = true
	if st, ok := t.Underlying().(*types.Struct); ok {
		ss := e.sortOf(t)
		for i := 0; i < st.NumFields(); i++ {
			k := e.heapKey(ss, i)
			e.setFresh(k, store(e.get(e.st, k), r, e.w.so.zero(st.Field(i).Type())))
		}
		e.initGhosts(r, t)
	} else {
		k := e.memKey(e.sortOf(t))
		e.setFresh(k, store(e.get(e.st, k), r, e.w.so.zero(t)))
	}
}

// initGhosts sets ghost state of freshly allocated objects (e.g. an empty strings.Builder).
func (e *Enc) initGhosts(r string, t types.Type) {
	ts := types.TypeString(t, nil)
	if ts == "strings.Builder" || ts == "bytes.Buffer" {
		if g := e.w.cs.Ghosts["out"]; g != nil {
			k := e.ghostKey(g)
			idx := fmt.Sprintf("(VRef %d %s)", e.w.so.typeID(types.NewPointer(t)), r)
			e.setFresh(k, store(e.get(e.st, k), idx, "\"\""))
		}
	}
}

func (e *Enc) emptyMap(mt *types.Map) string {
	ks, vs := e.sortOf(mt.Key()), e.sortOf(mt.Elem())
	opt := e.w.so.optSort(vs)
	return fmt.Sprintf("((as const (Array %s %s)) None_%s)", ks, opt, opt)
}

func (e *Enc) lookup(x *ssa.Lookup) {
	xv := e.val(x.X)
	idx := e.val(x.Index)
	switch t := x.X.Type().Underlying().(type) {
	case *types.Map:
		opt := e.w.so.optSort(e.sortOf(t.Elem()))
		o := sel(sel(e.get(e.st, e.mapKeyT(t)), xv.S), idx.S)
		isSome := fmt.Sprintf("((_ is Some_%s) %s)", opt, o)
		// a nil map has no entries
		has := and(not(eq(xv.S, "0")), isSome)
		v := ite(has, fmt.Sprintf("(get_%s %s)", opt, o), e.w.so.zero(t.Elem()))
		vs := e.sortOf(t.Elem())
		vc := e.fresh(x.Name()+"_v", vs)
		e.assert(eq(vc, v))
		e.refBound(vc, t.Elem(), e.st)
		if vs == sVal {
			e.fact(fmt.Sprintf("(wfVal %s)", vc))
		}
		if x.CommaOk {
			e.tuples[x] = []TV{{vc, vs, t.Elem()}, {has, sBool, types.Typ[types.Bool]}}
		} else {
			e.vals[x] = TV{vc, vs, t.Elem()}
		}
	case *types.Basic:
		e.panicObl("index", x, fmt.Sprintf("(and (<= 0 %s) (< %s (str.len %s)))", idx.S, idx.S, xv.S))
		e.setVal(x, fmt.Sprintf("(byteAt %s %s)", xv.S, idx.S))
	default:
		e.havocVal(x)
	}
}

func (e *Enc) unop(x *ssa.UnOp) {
	switch x.Op {
	case token.MUL:
		p := e.placeOf(x.X)
		e.nilCheck(p, x)
		e.lockCheckLoad(p, x)
		v := e.placeLoad(e.st, p)
		s := e.sortOf(x.Type())
		// name the loaded value to keep terms small
		c := e.fresh(x.Name(), s)
		e.assert(eq(c, v))
		e.vals[x] = TV{c, s, x.Type()}
		if g, isG := x.X.(*ssa.Global); isG {
			e.globalLoads[c] = g.Name()
		}
		if p.Kind != pLocal {
			e.refBound(c, x.Type(), e.st)
			if s == sVal {
				e.fact(fmt.Sprintf("(wfVal %s)", c))
			}
			if s == sSlice {
				e.fact(fmt.Sprintf("(and (>= (slen %s) 0) (>= (sbase %s) 0) (=> (= (sbase %s) 0) (= (slen %s) 0)))", c, c, c, c))
			}
		}
	case token.NOT:
		e.setVal(x, not(e.val(x.X).S))
	case token.SUB:
		xv := e.val(x.X)
		if xv.Sort == sInt {
			e.setVal(x, "(- "+xv.S+")")
		} else if xv.Sort == sF64 || xv.Sort == sF32 {
			e.setVal(x, "(fp.neg "+xv.S+")")
		} else {
			e.havocVal(x)
		}
	default:
		e.flag("unmodelled-unop:" + x.Op.String())
		e.havocVal(x)
	}
}

func (e *Enc) binop(x *ssa.BinOp) {
	a, b := e.val(x.X), e.val(x.Y)
	op := x.Op
	set := func(s string) { e.setVal(x, s) }
	switch a.Sort {
	case sInt:
		if b.Sort != sInt {
			break
		}
		switch op {
		case token.ADD:
			set(fmt.Sprintf("(+ %s %s)", a.S, b.S))
		case token.SUB:
			set(fmt.Sprintf("(- %s %s)", a.S, b.S))
		case token.MUL:
			set(fmt.Sprintf("(* %s %s)", a.S, b.S))
		case token.QUO:
			e.panicObl("divzero", x, fmt.Sprintf("(not (= %s 0))", b.S))
			set(fmt.Sprintf("(ite (>= %s 0) (div %s %s) (- (div (- %s) %s)))", a.S, a.S, b.S, a.S, b.S))
		case token.REM:
			e.panicObl("divzero", x, fmt.Sprintf("(not (= %s 0))", b.S))
			set(fmt.Sprintf("(ite (>= %s 0) (mod %s %s) (- (mod (- %s) %s)))", a.S, a.S, b.S, a.S, b.S))
		case token.EQL:
			set(eq(a.S, b.S))
		case token.NEQ:
			set(not(eq(a.S, b.S)))
		case token.LSS:
			set(fmt.Sprintf("(< %s %s)", a.S, b.S))
		case token.LEQ:
			set(fmt.Sprintf("(<= %s %s)", a.S, b.S))
		case token.GTR:
			set(fmt.Sprintf("(> %s %s)", a.S, b.S))
		case token.GEQ:
			set(fmt.Sprintf("(>= %s %s)", a.S, b.S))
		default:
			e.flag("unmodelled-binop:" + op.String())
			e.havocVal(x)
		}
		return
	case sString:
		switch op {
		case token.ADD:
			set(fmt.Sprintf("(str.++ %s %s)", a.S, b.S))
		case token.EQL:
			set(eq(a.S, b.S))
		case token.NEQ:
			set(not(eq(a.S, b.S)))
		case token.LSS:
			set(fmt.Sprintf("(str.< %s %s)", a.S, b.S))
		case token.LEQ:
			set(fmt.Sprintf("(str.<= %s %s)", a.S, b.S))
		case token.GTR:
			set(fmt.Sprintf("(str.< %s %s)", b.S, a.S))
		case token.GEQ:
			set(fmt.Sprintf("(str.<= %s %s)", b.S, a.S))
		default:
			e.havocVal(x)
		}
		return
	case sBool:
		switch op {
		case token.EQL:
			set(eq(a.S, b.S))
		case token.NEQ:
			set(not(eq(a.S, b.S)))
		case token.AND, token.LAND:
			set(and(a.S, b.S))
		case token.OR, token.LOR:
			set(or(a.S, b.S))
		default:
			e.havocVal(x)
		}
		return
	case sF64, sF32:
		switch op {
		case token.ADD:
			set(fmt.Sprintf("(fp.add RNE %s %s)", a.S, b.S))
		case token.SUB:
			set(fmt.Sprintf("(fp.sub RNE %s %s)", a.S, b.S))
		case token.MUL:
			set(fmt.Sprintf("(fp.mul RNE %s %s)", a.S, b.S))
		case token.QUO:
			set(fmt.Sprintf("(fp.div RNE %s %s)", a.S, b.S))
		case token.EQL:
			set(fmt.Sprintf("(fp.eq %s %s)", a.S, b.S))
		case token.NEQ:
			set(fmt.Sprintf("(not (fp.eq %s %s))", a.S, b.S))
		case token.LSS:
			set(fmt.Sprintf("(fp.lt %s %s)", a.S, b.S))
		case token.LEQ:
			set(fmt.Sprintf("(fp.leq %s %s)", a.S, b.S))
		case token.GTR:
			set(fmt.Sprintf("(fp.gt %s %s)", a.S, b.S))
		case token.GEQ:
			set(fmt.Sprintf("(fp.geq %s %s)", a.S, b.S))
		default:
			e.havocVal(x)
		}
		return
	}
	// other sorts: only equality
	switch op {
	case token.EQL:
		if a.Sort == sSlice { // comparison with nil
			set(eq("(sbase "+a.S+")", "(sbase "+b.S+")"))
			return
		}
		set(eq(a.S, b.S))
	case token.NEQ:
		if a.Sort == sSlice {
			set(not(eq("(sbase "+a.S+")", "(sbase "+b.S+")")))
			return
		}
		set(not(eq(a.S, b.S)))
	default:
		e.havocVal(x)
	}
}

// box converts a value of static type t to Val.
func (e *Enc) box(v TV, t types.Type) string {
	if _, isIface := t.Underlying().(*types.Interface); isIface {
		return v.S
	}
	if b, ok := t.(*types.Basic); ok || isAliasBasic(t) {
		if !ok {
			b = types.Unalias(t).(*types.Basic)
		}
		switch {
		case b.Info()&types.IsBoolean != 0:
			return "(VBool " + v.S + ")"
		case b.Info()&types.IsString != 0:
			return "(VStr " + v.S + ")"
		case b.Info()&types.IsInteger != 0:
			k := b.Kind()
			switch k {
			case types.UntypedInt:
				k = types.Int
			case types.UntypedRune:
				k = types.Int32
			}
			return fmt.Sprintf("(VInt %d %s)", int(k), v.S)
		case b.Kind() == types.Float64 || b.Kind() == types.UntypedFloat:
			return "(VF64 " + v.S + ")"
		case b.Kind() == types.Float32:
			return "(VF32 " + v.S + ")"
		}
	}
	id := e.w.so.typeID(t)
	switch t.Underlying().(type) {
	case *types.Pointer, *types.Map, *types.Chan:
		return fmt.Sprintf("(VRef %d %s)", id, v.S)
	case *types.Signature:
		return fmt.Sprintf("(VRef %d %s)", id, v.S)
	}
	// boxed by value: fresh identity with an unbox fact
	c := e.fresh("box", sInt)
	e.assert(fmt.Sprintf("(>= %s 0)", c))
	e.assert(eq(fmt.Sprintf("(%s %s)", e.w.so.unboxFn(v.Sort), c), v.S))
	return fmt.Sprintf("(VRef %d %s)", id, c)
}

func isAliasBasic(t types.Type) bool {
	_, ok := types.Unalias(t).(*types.Basic)
	return ok
}

// unboxTest returns (test, projection) for asserting Val v to concrete type t.
func (e *Enc) unboxTest(v string, t types.Type) (string, string) {
	if b, ok := types.Unalias(t).(*types.Basic); ok {
		switch {
		case b.Info()&types.IsBoolean != 0:
			return "((_ is VBool) " + v + ")", "(vbool " + v + ")"
		case b.Info()&types.IsString != 0:
			return "((_ is VStr) " + v + ")", "(vstr " + v + ")"
		case b.Info()&types.IsInteger != 0:
			return fmt.Sprintf("(and ((_ is VInt) %s) (= (vkind %s) %d))", v, v, int(b.Kind())), "(vint " + v + ")"
		case b.Kind() == types.Float64:
			return "((_ is VF64) " + v + ")", "(vf64 " + v + ")"
		case b.Kind() == types.Float32:
			return "((_ is VF32) " + v + ")", "(vf32 " + v + ")"
		}
	}
	id := e.w.so.typeID(t)
	test := fmt.Sprintf("(and ((_ is VRef) %s) (= (vtype %s) %d))", v, v, id)
	switch t.Underlying().(type) {
	case *types.Pointer, *types.Map, *types.Chan, *types.Signature:
		return test, "(vid " + v + ")"
	}
	return test, fmt.Sprintf("(%s (vid %s))", e.w.so.unboxFn(e.sortOf(t)), v)
}

func (e *Enc) typeAssert(x *ssa.TypeAssert) {
	v := e.val(x.X)
	at := x.AssertedType
	var test, proj string
	if _, isIface := at.Underlying().(*types.Interface); isIface {
		proj = v.S
		if at.Underlying().(*types.Interface).NumMethods() == 0 {
			test = not(eq(v.S, "VNil"))
		} else {
			t := e.fresh("implements", sBool)
			e.assert(imp(t, not(eq(v.S, "VNil"))))
			test = t
		}
	} else {
		test, proj = e.unboxTest(v.S, at)
	}
	s := e.sortOf(at)
	if x.CommaOk {
		val := ite(test, proj, e.w.so.zeroSort(s))
		c := e.fresh(x.Name()+"_v", s)
		e.assert(eq(c, val))
		if s == sInt {
			if _, isPtr := at.Underlying().(*types.Pointer); isPtr {
				e.refBound(c, at, e.st)
			}
		}
		e.tuples[x] = []TV{{c, s, at}, {test, sBool, types.Typ[types.Bool]}}
		return
	}
	e.panicObl("typeassert", x, test)
	e.vals[x] = TV{proj, s, at}
}

func (e *Enc) convert(x *ssa.Convert) {
	from, to := x.X.Type().Underlying(), x.Type().Underlying()
	v := e.val(x.X)
	fs, ts := e.sortOf(from), e.sortOf(to)
	switch {
	case fs == ts && fs == sInt:
		// integer conversions: identity when the target range contains the source range, otherwise unknown
		fb, _ := from.(*types.Basic)
		tb, _ := to.(*types.Basic)
		if fb != nil && tb != nil && intWidens(fb, tb) {
			e.setVal(x, v.S)
		} else if fb != nil && tb != nil {
			c := e.havocVal(x)
			// identity if in range of the target
			if lo, hi, ok := intRange(tb); ok {
				e.assert(fmt.Sprintf("(=> (and (<= %s %s) (<= %s %s)) (= %s %s))", lo, v.S, v.S, hi, c, v.S))
				e.assert(fmt.Sprintf("(and (<= %s %s) (<= %s %s))", lo, c, c, hi))
			}
		} else {
			e.setVal(x, v.S)
		}
	case fs == ts && (fs == sString || fs == sBool || fs == sF64 || fs == sF32):
		e.setVal(x, v.S)
	case fs == sString && ts == sSlice:
		// []byte(s) / []rune(s): fresh backing store whose string content is s
		r := e.allocRef("bytes")
		k := e.arrKey(sInt)
		a := e.fresh("bytearr", "(Array Int Int)")
		e.setFresh(k, store(e.get(e.st, k), r, a))
		sl := fmt.Sprintf("(mkslice %s (str.len %s))", r, v.S)
		e.fact(eq(fmt.Sprintf("(bytesStr %s (str.len %s))", a, v.S), v.S))
		e.setVal(x, sl)
	case fs == sSlice && ts == sString:
		a := sel(e.get(e.st, e.arrKey(sInt)), "(sbase "+v.S+")")
		c := e.fresh(x.Name(), sString)
		e.assert(eq(c, fmt.Sprintf("(bytesStr %s (slen %s))", a, v.S)))
		e.fact(eq(fmt.Sprintf("(str.len %s)", c), fmt.Sprintf("(slen %s)", v.S)))
		e.vals[x] = TV{c, sString, x.Type()}
	case fs == sInt && ts == sString:
		// string(rune)
		c := e.havocVal(x)
		e.assert(fmt.Sprintf("(=> (and (<= 0 %s) (< %s 128)) (= %s (str.from_code %s)))", v.S, v.S, c, v.S))
	default:
		e.flag("unmodelled-convert")
		e.havocVal(x)
	}
}

func intRange(b *types.Basic) (string, string, bool) {
	switch b.Kind() {
	case types.Int8:
		return "(- 128)", "127", true
	case types.Int16:
		return "(- 32768)", "32767", true
	case types.Int32:
		return "(- 2147483648)", "2147483647", true
	case types.Int, types.Int64:
		return "(- 9223372036854775808)", "9223372036854775807", true
	case types.Uint8:
		return "0", "255", true
	case types.Uint16:
		return "0", "65535", true
	case types.Uint32:
		return "0", "4294967295", true
	case types.Uint, types.Uint64, types.Uintptr:
		return "0", "18446744073709551615", true
	}
	return "", "", false
}

func intWidens(from, to *types.Basic) bool {
	rank := func(b *types.Basic) (int, bool) { // bits, signed
		switch b.Kind() {
		case types.Int8:
			return 8, true
		case types.Int16:
			return 16, true
		case types.Int32:
			return 32, true
		case types.Int, types.Int64:
			return 64, true
		case types.Uint8:
			return 8, false
		case types.Uint16:
			return 16, false
		case types.Uint32:
			return 32, false
		case types.Uint, types.Uint64, types.Uintptr:
			return 64, false
		case types.UntypedInt, types.UntypedRune:
			return 0, true
		}
		return 64, true
	}
	fb, fsg := rank(from)
	tb, tsg := rank(to)
	if fb == 0 {
		return true
	}
	if fsg == tsg {
		return tb >= fb
	}
	if !fsg && tsg {
		return tb > fb
	}
	return false
}

func (e *Enc) slice(x *ssa.Slice) {
	var lo, hi string
	if x.Low != nil {
		lo = e.val(x.Low).S
	} else {
		lo = "0"
	}
	switch t := x.X.Type().Underlying().(type) {
	case *types.Basic: // string
		s := e.val(x.X)
		if x.High != nil {
			hi = e.val(x.High).S
		} else {
			hi = "(str.len " + s.S + ")"
		}
		e.panicObl("slice", x, fmt.Sprintf("(and (<= 0 %s) (<= %s %s) (<= %s (str.len %s)))", lo, lo, hi, hi, s.S))
		e.setVal(x, fmt.Sprintf("(str.substr %s %s (- %s %s))", s.S, lo, hi, lo))
	case *types.Slice:
		s := e.val(x.X)
		if x.High != nil {
			hi = e.val(x.High).S
		} else {
			hi = "(slen " + s.S + ")"
		}
		// cap is not modelled: bound by len (stricter than Go; flagged when High exceeds len legitimately)
		e.panicObl("slice", x, fmt.Sprintf("(and (<= 0 %s) (<= %s %s) (<= %s (slen %s)))", lo, lo, hi, hi, s.S))
		if lo == "0" {
			e.setVal(x, fmt.Sprintf("(mkslice (sbase %s) %s)", s.S, hi))
			return
		}
		es := e.sortOf(t.Elem())
		r := e.allocRef("reslice")
		k := e.arrKeyT(t.Elem())
		old := sel(e.get(e.st, k), "(sbase "+s.S+")")
		a := e.fresh("resl", "(Array Int "+es+")")
		e.assert(fmt.Sprintf("(forall ((i Int)) (! (=> (and (<= 0 i) (< i (- %s %s))) (= (select %s i) (select %s (+ %s i)))) :pattern ((select %s i))))", hi, lo, a, old, lo, a))
		e.setFresh(k, store(e.get(e.st, k), r, a))
		e.flag("reslice-with-offset-copies")
		e.setVal(x, fmt.Sprintf("(mkslice %s (- %s %s))", r, hi, lo))
	case *types.Pointer: // pointer to array
		arr := t.Elem().Underlying().(*types.Array)
		p := e.placeOf(x.X)
		av := e.placeLoad(e.st, p)
		n := strconv.FormatInt(arr.Len(), 10)
		if x.High != nil {
			hi = e.val(x.High).S
		} else {
			hi = n
		}
		r := e.allocRef("arrslice")
		k := e.arrKeyT(arr.Elem())
		if lo != "0" {
			e.flag("array-slice-offset")
			e.havocVal(x)
			return
		}
		e.setFresh(k, store(e.get(e.st, k), r, av))
		e.setVal(x, fmt.Sprintf("(mkslice %s %s)", r, hi))
	default:
		e.havocVal(x)
	}
}

func (e *Enc) rangeInstr(x *ssa.Range) {
	key := e.regComp("It|"+x.Name(), sInt)
	rec := &iterRec{key: key, m: e.val(x.X)}
	switch t := x.X.Type().Underlying().(type) {
	case *types.Map:
		rec.isMap = true
		rec.mapT = t
		rec.kSort, rec.vSort = e.sortOf(t.Key()), e.sortOf(t.Elem())
		e.compSort[key] = "(Array " + rec.kSort + " Bool)"
		e.set(key, fmt.Sprintf("((as const (Array %s Bool)) false)", rec.kSort))
	default:
		e.set(key, "0")
	}
	e.iterInfo[x] = rec
	e.setVal(x, "0")
}

func (e *Enc) next(x *ssa.Next) {
	rec := e.iterInfo[x.Iter]
	if rec == nil {
		e.havocVal(x)
		return
	}
	if rec.isMap {
		visited := e.get(e.st, rec.key)
		opt := e.w.so.optSort(rec.vSort)
		contents := sel(e.get(e.st, e.mapKeyT(rec.mapT)), rec.m.S)
		ok := e.fresh(x.Name()+"_ok", sBool)
		k := e.fresh(x.Name()+"_k", rec.kSort)
		v := e.fresh(x.Name()+"_v", rec.vSort)
		has := func(kk string) string {
			return and(not(eq(rec.m.S, "0")), fmt.Sprintf("((_ is Some_%s) (select %s %s))", opt, contents, kk))
		}
		e.assume(imp(ok, and(has(k), not(sel(visited, k)), eq(v, fmt.Sprintf("(get_%s (select %s %s))", opt, contents, k)))))
		e.assume(imp(not(ok), fmt.Sprintf("(forall ((kk %s)) (=> %s (select %s kk)))", rec.kSort, has("kk"), visited)))
		if rec.vSort == sVal {
			e.fact(fmt.Sprintf("(wfVal %s)", v))
		}
		e.refBound(v, rec.mapT.Elem(), e.st)
		e.set(rec.key, ite(ok, store(visited, k, "true"), visited))
		e.tuples[x] = []TV{{ok, sBool, types.Typ[types.Bool]}, {k, rec.kSort, rec.mapT.Key()}, {v, rec.vSort, rec.mapT.Elem()}}
		return
	}
	// string iteration
	idx := e.get(e.st, rec.key)
	s := rec.m.S
	ok := fmt.Sprintf("(< %s (str.len %s))", idx, s)
	r := e.fresh(x.Name()+"_rune", sInt)
	wd := e.fresh(x.Name()+"_w", sInt)
	b := fmt.Sprintf("(byteAt %s %s)", s, idx)
	e.assume(imp(ok, fmt.Sprintf("(ite (< %s 128) (and (= %s %s) (= %s 1)) (and (>= %s 128) (<= %s 1114111) (>= %s 1) (<= %s 4) (<= (+ %s %s) (str.len %s))))", b, r, b, wd, r, r, wd, wd, idx, wd, s)))
	e.assume(fmt.Sprintf("(>= %s 0)", idx))
	e.set(rec.key, ite(ok, fmt.Sprintf("(+ %s %s)", idx, wd), idx))
	e.tuples[x] = []TV{{ok, sBool, types.Typ[types.Bool]}, {idx, sInt, types.Typ[types.Int]}, {r, sInt, types.Typ[types.Int32]}}
}

func (e *Enc) srcText(pos token.Pos) string {
	return strings.TrimSpace(e.w.exprTextAt(e.fn, pos))
}
