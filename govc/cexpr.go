package main

// Contract expressions -> SMT terms.

import (
	"strconv"
	"fmt"
	"go/constant"
	"go/types"
	"strings"

	"golang.org/x/tools/go/ssa"
)

type Env struct {
	e       *Enc
	pkg     string
	vars    map[string]TV
	oldVars map[string]TV
	st      *State
	old     *State
	lookup  func(name string, st *State) (TV, bool)
	// spec-function translation mode: heap reads become hidden parameters
	spec    *specCtx
	iterKey string // state key of the map iterator of the loop being specified
	now     *Env   // inside old(...): the environment outside, reachable with now(e)
	callerEntry *State // while a callee's requires is checked at a call site: the calling function's entry state
}

type specCtx struct {
	deps  []string // component keys in order
	depOf map[string]string
}

func (e *Enc) newEnv(pkg string) *Env {
	return &Env{e: e, pkg: pkg, vars: map[string]TV{}}
}

func (e *Enc) entryEnv() *Env {
	pkg := ""
	if e.ctr != nil {
		pkg = e.ctr.Pkg
	} else if e.fn != nil && e.fn.Pkg != nil {
		pkg = e.fn.Pkg.Pkg.Path()
	}
	env := e.newEnv(pkg)
	if e.ctr != nil && e.fn != nil {
		names := e.ctr.Params
		if e.ctr.RecvName != "" && e.fn.Signature.Recv() != nil {
			// (the contract of a closure is written under its enclosing method's name: it has no receiver itself)
			names = append([]string{e.ctr.RecvName}, names...)
		}
		for i, p := range e.fn.Params {
			if i < len(names) {
				env.vars[names[i]] = e.vals[p]
			}
			env.vars[p.Name()] = e.vals[p]
		}
		for _, fv := range e.fn.FreeVars {
			env.vars["&"+fv.Name()] = e.vals[fv]
		}
	}
	env.st = e.entry
	env.old = e.entry
	env.oldVars = env.vars
	return env
}

// loopEnv: environment for loop invariants at header (pred == nil) or along the edge from pred.
func (e *Enc) loopEnv(li *loopInfo, pred *ssa.BasicBlock) *Env {
	env := e.entryEnv()
	env.oldVars = map[string]TV{}
	for k, v := range env.vars {
		env.oldVars[k] = v
	}
	env.st = e.st
	env.old = e.entry
	e.currentParams(env, e.st)
	h := li.header
	for _, in := range h.Instrs {
		if nx, ok := in.(*ssa.Next); ok {
			if rec := e.iterInfo[nx.Iter]; rec != nil && rec.isMap {
				env.iterKey = rec.key
			}
		}
	}
	env.lookup = func(name string, st *State) (TV, bool) {
		// $iN: completed-iteration count (= current index inside the body) of the enclosing range loop N
		if len(name) > 2 && strings.HasPrefix(name, "$i") {
			if n, err := strconv.Atoi(name[2:]); err == nil && n >= 0 && n < len(e.loopList) && e.loopList[n] != li && e.loopList[n].body[h] {
				for _, in := range e.loopList[n].header.Instrs {
					if phi, ok := in.(*ssa.Phi); ok && phi.Comment == "rangeindex" {
						return TV{"(+ " + e.val(phi).S + " 1)", sInt, types.Typ[types.Int]}, true
					}
				}
			}
			return TV{}, false
		}
		// phi in header
		for _, in := range h.Instrs {
			phi, ok := in.(*ssa.Phi)
			if !ok {
				break
			}
			match := phi.Comment == name
			if name == "$i" && phi.Comment == "rangeindex" {
				match = true
			}
			if !match {
				continue
			}
			var tv TV
			if pred == nil {
				tv = e.val(phi)
			} else {
				found := false
				for i, p := range h.Preds {
					if p == pred {
						tv = e.val(phi.Edges[i])
						found = true
						break
					}
				}
				if !found {
					return TV{}, false
				}
			}
			if name == "$i" {
				return TV{"(+ " + tv.S + " 1)", sInt, types.Typ[types.Int]}, true
			}
			return tv, true
		}
		return e.lookupLocal(name, h, st)
	}
	return env
}

// lookupLocal finds the SSA value of a source variable visible at the start of block b.
func (e *Enc) lookupLocal(name string, b *ssa.BasicBlock, st *State) (TV, bool) {
	wantAddr := false
	if strings.HasPrefix(name, "&") {
		wantAddr = true
		name = name[1:]
	}
	first := true
	for d := b.Idom(); d != nil || first; d = d.Idom() {
		start := 0
		if first {
			first = false
			if e.lookupIdx < 0 {
				if d == nil {
					break
				}
			} else {
				// also scan the prefix of b itself (used by `assert ... at` clauses)
				d = b
				start = len(b.Instrs) - e.lookupIdx
			}
		}
		if d == nil {
			break
		}
		for i := len(d.Instrs) - 1 - start; i >= 0; i-- {
			switch x := d.Instrs[i].(type) {
			case *ssa.Phi:
				if x.Comment == name {
					return e.val(x), true
				}
			case *ssa.DebugRef:
				obj := x.Object()
				if obj == nil || obj.Name() != name {
					continue
				}
				if v, isVar := obj.(*types.Var); !isVar || v.IsField() {
					continue
				}
				if wantAddr {
					if x.IsAddr {
						if _, isPlace := e.places[x.X]; !isPlace {
							return e.val(x.X), true
						}
					}
					continue
				}
				if x.IsAddr {
					p := e.placeOf(x.X)
					s := e.sortOf(p.T)
					return TV{e.placeLoad(st, p), s, p.T}, true
				}
				if cell := e.cellOf(obj); cell != nil {
					// the variable lives in a cell (captured or address-taken): its current content, not the value
					// recorded at its declaration
					p := e.placeOf(cell)
					return TV{e.placeLoad(st, p), e.sortOf(p.T), p.T}, true
				}
				if _, isConst := x.X.(*ssa.Const); isConst {
					// go/ssa records the zero value at a short variable declaration; prefer a later reference to the same
					// object whose value is defined in a block dominating b
					if alt := e.betterBinding(obj, b); alt != nil {
						return e.val(alt), true
					}
				}
				return e.val(x.X), true
			}
		}
	}
	// parameters (unmodified)
	for _, p := range e.fn.Params {
		if p.Name() == name {
			return e.vals[p], true
		}
	}
	return TV{}, false
}

func (e *Enc) evalBool(x Expr, env *Env) (string, error) {
	tv, err := e.evalExpr(x, env)
	if err != nil {
		return "", err
	}
	if tv.Sort != sBool {
		return "", fmt.Errorf("expected Bool, got %s in %s", tv.Sort, exprString(x))
	}
	return tv.S, nil
}

func (env *Env) child() *Env {
	n := *env
	n.vars = map[string]TV{}
	for k, v := range env.vars {
		n.vars[k] = v
	}
	return &n
}

func (env *Env) getComp(key string, old bool) string {
	e := env.e
	if env.spec != nil {
		if n, ok := env.spec.depOf[key]; ok {
			return n
		}
		n := "hp_" + sanitize(key)
		env.spec.depOf[key] = n
		env.spec.deps = append(env.spec.deps, key)
		return n
	}
	st := env.st
	if old {
		st = env.old
	}
	return e.get(st, key)
}

func (e *Enc) evalExpr(x Expr, env *Env) (TV, error) {
	so := e.w.so
	switch n := x.(type) {
	case *IntLit:
		return TV{smtInt(n.V), sInt, types.Typ[types.Int]}, nil
	case *StrLit:
		return TV{smtString(n.V), sString, types.Typ[types.String]}, nil
	case *BoolLit:
		if n.V {
			return TV{"true", sBool, types.Typ[types.Bool]}, nil
		}
		return TV{"false", sBool, types.Typ[types.Bool]}, nil
	case *NilLit:
		return TV{"nil", "nil", nil}, nil
	case *Ident:
		if tv, ok := env.vars[n.Name]; ok {
			return tv, nil
		}
		if tv, ok := env.vars["&"+n.Name]; ok {
			// captured variable of a closure: auto-dereference
			pt := deref(tv.T)
			var p *Place
			if isStruct(pt) {
				p = &Place{Kind: pHeap, Ref: tv.S, RootT: pt, T: pt}
			} else {
				p = &Place{Kind: pMem, Ref: tv.S, RootT: pt, T: pt}
			}
			if env.spec != nil {
				return TV{}, fmt.Errorf("captured variable in spec")
			}
			return TV{e.placeLoad(env.st, p), e.sortOf(pt), pt}, nil
		}
		if env.lookup != nil {
			if tv, ok := env.lookup(n.Name, env.st); ok {
				return tv, nil
			}
		}
		if g := e.w.cs.Ghosts[n.Name]; g != nil && len(g.Params) == 0 {
			k := e.ghostKey(g)
			rt, _ := e.w.evalType(g.Pkg, g.Ret)
			return TV{env.getComp(k, false), e.compKeySort(k), rt}, nil
		}
		if tv, ok := e.pkgConst(env.pkg, n.Name); ok {
			return tv, nil
		}
		if tv, ok := e.pkgGlobal(env, n.Name); ok {
			return tv, nil
		}
		return TV{}, fmt.Errorf("unknown name %q", n.Name)
	case *OldE:
		c := env.child()
		c.st = env.old
		c.now = env
		if env.oldVars != nil {
			for k, v := range env.oldVars {
				c.vars[k] = v
			}
		}
		return e.evalExpr(n.X, c)
	case *Unary:
		if n.Op == "&" {
			if se, isSel := n.X.(*SelE); isSel {
				// &x.f : address of a field of a heap object
				b, err := e.evalExpr(se.X, env)
				if err != nil {
					return TV{}, err
				}
				if b.T == nil {
					return TV{}, fmt.Errorf("& of a field of an untyped value")
				}
				st, ok := deref(b.T).Underlying().(*types.Struct)
				if !ok {
					return TV{}, fmt.Errorf("&x.f needs a struct pointer")
				}
				for i := 0; i < st.NumFields(); i++ {
					if st.Field(i).Name() == se.Name {
						return TV{fmt.Sprintf("(fieldaddr %s %d)", b.S, i), sInt, types.NewPointer(st.Field(i).Type())}, nil
					}
				}
				return TV{}, fmt.Errorf("no field %s", se.Name)
			}
			id, ok := n.X.(*Ident)
			if !ok || env.lookup == nil {
				return TV{}, fmt.Errorf("& needs a local variable name")
			}
			if tv, ok := env.lookup("&"+id.Name, env.st); ok {
				return tv, nil
			}
			return TV{}, fmt.Errorf("no addressable local %q", id.Name)
		}
		a, err := e.evalExpr(n.X, env)
		if err != nil {
			return TV{}, err
		}
		if n.Op == "!" {
			return TV{not(a.S), sBool, a.T}, nil
		}
		return TV{"(- " + a.S + ")", sInt, a.T}, nil
	case *CondE:
		c, err := e.evalBool(n.C, env)
		if err != nil {
			return TV{}, err
		}
		a, err := e.evalExpr(n.A, env)
		if err != nil {
			return TV{}, err
		}
		b, err := e.evalExpr(n.B, env)
		if err != nil {
			return TV{}, err
		}
		a, b = e.unifyNil(a, b)
		return TV{ite(c, a.S, b.S), a.Sort, a.T}, nil
	case *Binary:
		return e.evalBinary(n, env)
	case *QuantE:
		c := env.child()
		var bs []string
		for _, v := range n.Vars {
			var s string
			var t types.Type
			if v.Type == "Val" {
				s = sVal
			} else {
				var err error
				t, err = e.w.evalType(env.pkg, v.Type)
				if err != nil {
					return TV{}, err
				}
				s = so.sortOf(t)
			}
			name := "q_" + sanitize(v.Name)
			c.vars[v.Name] = TV{name, s, t}
			bs = append(bs, fmt.Sprintf("(%s %s)", name, s))
		}
		body, err := e.evalBool(n.Body, c)
		if err != nil {
			return TV{}, err
		}
		q := "exists"
		if n.Forall {
			q = "forall"
		}
		return TV{fmt.Sprintf("(%s (%s) %s)", q, strings.Join(bs, " "), body), sBool, types.Typ[types.Bool]}, nil
	case *SelE:
		// qualified constant?
		if id, ok := n.X.(*Ident); ok {
			if _, bound := env.vars[id.Name]; !bound {
				if tv, ok := e.qualConst(id.Name, n.Name); ok {
					return tv, nil
				}
			}
		}
		a, err := e.evalExpr(n.X, env)
		if err != nil {
			return TV{}, err
		}
		if a.T == nil {
			return TV{}, fmt.Errorf("field %s of untyped value", n.Name)
		}
		t := a.T
		isPtr := false
		if p, ok := t.Underlying().(*types.Pointer); ok {
			t = p.Elem()
			isPtr = true
		}
		st, ok := t.Underlying().(*types.Struct)
		if !ok {
			return TV{}, fmt.Errorf("field %s of non-struct %s", n.Name, t)
		}
		ss := so.sortOf(t)
		for i := 0; i < st.NumFields(); i++ {
			if st.Field(i).Name() != n.Name {
				continue
			}
			ft := st.Field(i).Type()
			if isPtr {
				k := e.heapKey(ss, i)
				t := sel(env.getComp(k, false), a.S)
				if env.spec == nil && !strings.Contains(t, "q_") {
					e.wfHeapTerm(t, ft)
				}
				return TV{t, so.sortOf(ft), ft}, nil
			}
			info := so.structInfo[ss]
			return TV{fmt.Sprintf("(%s %s)", info.Fields[i], a.S), so.sortOf(ft), ft}, nil
		}
		return TV{}, fmt.Errorf("no field %s in %s", n.Name, t)
	case *IndexE:
		a, err := e.evalExpr(n.X, env)
		if err != nil {
			return TV{}, err
		}
		i, err := e.evalExpr(n.I, env)
		if err != nil {
			return TV{}, err
		}
		switch a.Sort {
		case sString:
			return TV{fmt.Sprintf("(byteAt %s %s)", a.S, i.S), sInt, types.Typ[types.Uint8]}, nil
		case sSlice:
			stt, ok := a.T.Underlying().(*types.Slice)
			if !ok {
				return TV{}, fmt.Errorf("index of slice without element type")
			}
			es := so.sortOf(stt.Elem())
			k := e.arrKeyT(stt.Elem())
			return TV{sel(sel(env.getComp(k, false), "(sbase "+a.S+")"), i.S), es, stt.Elem()}, nil
		}
		if a.T != nil {
			if mt, ok := a.T.Underlying().(*types.Map); ok {
				k := e.mapKeyT(mt)
				vs := so.sortOf(mt.Elem())
				opt := so.optSort(vs)
				o := sel(sel(env.getComp(k, false), a.S), i.S)
				return TV{ite(and(not(eq(a.S, "0")), fmt.Sprintf("((_ is Some_%s) %s)", opt, o)), fmt.Sprintf("(get_%s %s)", opt, o), so.zeroSort(vs)), vs, mt.Elem()}, nil
			}
			if at, ok := a.T.Underlying().(*types.Array); ok {
				return TV{sel(a.S, i.S), so.sortOf(at.Elem()), at.Elem()}, nil
			}
		}
		if strings.HasPrefix(a.Sort, "(Array ") {
			return TV{sel(a.S, i.S), splitArraySort(strings.TrimSuffix(strings.TrimPrefix(a.Sort, "(Array "), ")")), nil}, nil
		}
		return TV{}, fmt.Errorf("cannot index %s", exprString(n.X))
	case *SliceE:
		a, err := e.evalExpr(n.X, env)
		if err != nil {
			return TV{}, err
		}
		lo, hi := "0", ""
		if n.Lo != nil {
			l, err := e.evalExpr(n.Lo, env)
			if err != nil {
				return TV{}, err
			}
			lo = l.S
		}
		if n.Hi != nil {
			h, err := e.evalExpr(n.Hi, env)
			if err != nil {
				return TV{}, err
			}
			hi = h.S
		}
		if a.Sort == sString {
			if hi == "" {
				hi = "(str.len " + a.S + ")"
			}
			return TV{fmt.Sprintf("(str.substr %s %s (- %s %s))", a.S, lo, hi, lo), sString, a.T}, nil
		}
		if a.Sort == sSlice && lo == "0" && hi != "" {
			return TV{fmt.Sprintf("(mkslice (sbase %s) %s)", a.S, hi), sSlice, a.T}, nil
		}
		return TV{}, fmt.Errorf("unsupported slice expression %s", exprString(x))
	case *CallE:
		return e.evalCall(n, env)
	}
	return TV{}, fmt.Errorf("unsupported expression %T", x)
}

func (e *Enc) unifyNil(a, b TV) (TV, TV) {
	if a.Sort == "nil" && b.Sort != "nil" {
		a = TV{e.nilOf(b), b.Sort, b.T}
	}
	if b.Sort == "nil" && a.Sort != "nil" {
		b = TV{e.nilOf(a), a.Sort, a.T}
	}
	return a, b
}

func (e *Enc) nilOf(o TV) string {
	switch o.Sort {
	case sVal:
		return "VNil"
	case sSlice:
		return "(mkslice 0 0)"
	}
	return "0"
}

func (e *Enc) evalBinary(n *Binary, env *Env) (TV, error) {
	tBool := types.Typ[types.Bool]
	switch n.Op {
	case "&&", "||", "==>", "<==>":
		a, err := e.evalBool(n.X, env)
		if err != nil {
			return TV{}, err
		}
		b, err := e.evalBool(n.Y, env)
		if err != nil {
			return TV{}, err
		}
		switch n.Op {
		case "&&":
			return TV{and(a, b), sBool, tBool}, nil
		case "||":
			return TV{or(a, b), sBool, tBool}, nil
		case "==>":
			return TV{imp(a, b), sBool, tBool}, nil
		}
		return TV{eq(a, b), sBool, tBool}, nil
	case "in":
		k, err := e.evalExpr(n.X, env)
		if err != nil {
			return TV{}, err
		}
		m, err := e.evalExpr(n.Y, env)
		if err != nil {
			return TV{}, err
		}
		if m.T != nil {
			if mt, ok := m.T.Underlying().(*types.Map); ok {
				key := e.mapKeyT(mt)
				opt := e.w.so.optSort(e.sortOf(mt.Elem()))
				return TV{and(not(eq(m.S, "0")), fmt.Sprintf("((_ is Some_%s) %s)", opt, sel(sel(env.getComp(key, false), m.S), k.S))), sBool, tBool}, nil
			}
		}
		if strings.HasPrefix(m.Sort, "(Array ") && strings.HasSuffix(m.Sort, " Bool)") {
			return TV{sel(m.S, k.S), sBool, tBool}, nil
		}
		return TV{}, fmt.Errorf("'in' needs a map or set")
	}
	a, err := e.evalExpr(n.X, env)
	if err != nil {
		return TV{}, err
	}
	b, err := e.evalExpr(n.Y, env)
	if err != nil {
		return TV{}, err
	}
	a, b = e.unifyNil(a, b)
	switch n.Op {
	case "==", "!=":
		var t string
		if a.Sort == sSlice && (strings.HasPrefix(b.S, "(mkslice 0 0)") || strings.HasPrefix(a.S, "(mkslice 0 0)")) {
			t = eq("(sbase "+a.S+")", "(sbase "+b.S+")")
		} else if a.Sort == sF64 || a.Sort == sF32 {
			t = fmt.Sprintf("(fp.eq %s %s)", a.S, b.S)
		} else {
			if a.Sort != b.Sort {
				return TV{}, fmt.Errorf("sort mismatch %s vs %s in %s", a.Sort, b.Sort, exprString(n))
			}
			t = eq(a.S, b.S)
		}
		if n.Op == "!=" {
			t = not(t)
		}
		return TV{t, sBool, tBool}, nil
	case "<", "<=", ">", ">=":
		if a.Sort == sString {
			switch n.Op {
			case "<":
				return TV{fmt.Sprintf("(str.< %s %s)", a.S, b.S), sBool, tBool}, nil
			case "<=":
				return TV{fmt.Sprintf("(str.<= %s %s)", a.S, b.S), sBool, tBool}, nil
			case ">":
				return TV{fmt.Sprintf("(str.< %s %s)", b.S, a.S), sBool, tBool}, nil
			}
			return TV{fmt.Sprintf("(str.<= %s %s)", b.S, a.S), sBool, tBool}, nil
		}
		return TV{fmt.Sprintf("(%s %s %s)", n.Op, a.S, b.S), sBool, tBool}, nil
	case "+":
		if a.Sort == sString {
			return TV{fmt.Sprintf("(str.++ %s %s)", a.S, b.S), sString, a.T}, nil
		}
		return TV{fmt.Sprintf("(+ %s %s)", a.S, b.S), sInt, a.T}, nil
	case "-", "*":
		return TV{fmt.Sprintf("(%s %s %s)", n.Op, a.S, b.S), sInt, a.T}, nil
	case "/":
		return TV{fmt.Sprintf("(div %s %s)", a.S, b.S), sInt, a.T}, nil
	case "%":
		return TV{fmt.Sprintf("(mod %s %s)", a.S, b.S), sInt, a.T}, nil
	}
	return TV{}, fmt.Errorf("unsupported operator %s", n.Op)
}

func (e *Enc) pkgConst(pkg, name string) (TV, bool) {
	p := e.w.pkgByID[pkg]
	if p == nil {
		return TV{}, false
	}
	obj := p.Types.Scope().Lookup(name)
	c, ok := obj.(*types.Const)
	if !ok {
		return TV{}, false
	}
	s, ok := e.w.so.constTerm(c.Val(), c.Type())
	if !ok {
		return TV{}, false
	}
	return TV{s, e.sortOf(c.Type()), c.Type()}, true
}

func (e *Enc) qualConst(pkgName, name string) (TV, bool) {
	for _, sp := range e.w.prog.AllPackages() {
		if sp.Pkg.Name() != pkgName {
			continue
		}
		if c, ok := sp.Pkg.Scope().Lookup(name).(*types.Const); ok {
			t := c.Type()
			if b, isB := t.Underlying().(*types.Basic); isB && b.Info()&types.IsUntyped != 0 {
				t = types.Default(t)
			}
			if c.Val().Kind() == constant.Int || c.Val().Kind() == constant.String || c.Val().Kind() == constant.Bool {
				if s, ok := e.w.so.constTerm(c.Val(), t); ok {
					return TV{s, e.sortOf(t), t}, true
				}
			}
		}
	}
	return TV{}, false
}

// ---------- calls in contract expressions ----------

func (e *Enc) evalCall(n *CallE, env *Env) (TV, error) {
	tBool := types.Typ[types.Bool]
	tInt := types.Typ[types.Int]
	tStr := types.Typ[types.String]
	if n.Fun == "now" && len(n.Args) == 1 {
		// now(e) inside old(...): e in the current state (outside old it is the identity)
		if env.now != nil {
			return e.evalExpr(n.Args[0], env.now)
		}
		return e.evalExpr(n.Args[0], env)
	}
	var args []TV
	lazy := n.Fun == "allof"
	if !lazy {
		for _, a := range n.Args {
			tv, err := e.evalExpr(a, env)
			if err != nil {
				return TV{}, err
			}
			args = append(args, tv)
		}
	}
	need := func(k int) error {
		if len(args) != k {
			return fmt.Errorf("%s expects %d arguments", n.Fun, k)
		}
		return nil
	}
	// built(b) is the content of a strings.Builder / bytes.Buffer: the same ghost as out(w) for the boxed pointer,
	// so that writes through the io.Writer interface and through the Builder methods are one state
	if n.Fun == "built" && len(args) == 1 {
		if g := e.w.cs.Ghosts["out"]; g != nil && args[0].T != nil {
			k := e.ghostKey(g)
			return TV{sel(env.getComp(k, false), e.box(args[0], args[0].T)), sString, types.Typ[types.String]}, nil
		}
		return TV{}, fmt.Errorf("built() needs a typed pointer")
	}
	// ghost state
	if g := e.w.cs.Ghosts[n.Fun]; g != nil {
		k := e.ghostKey(g)
		t := env.getComp(k, false)
		sortText := e.compKeySort(k)
		for _, a := range args {
			t = sel(t, a.S)
			sortText = splitArraySort(strings.TrimSuffix(strings.TrimPrefix(sortText, "(Array "), ")"))
		}
		var rt types.Type
		if g.Ret != "set[string]" {
			rt, _ = e.w.evalType(g.Pkg, g.Ret)
		}
		return TV{t, sortText, rt}, nil
	}
	if sf := e.w.cs.Specs[n.Fun]; sf != nil {
		return e.w.specs.call(e, sf, args, env)
	}
	switch n.Fun {
	case "len":
		if err := need(1); err != nil {
			return TV{}, err
		}
		switch args[0].Sort {
		case sString:
			return TV{"(str.len " + args[0].S + ")", sInt, tInt}, nil
		case sSlice:
			return TV{"(slen " + args[0].S + ")", sInt, tInt}, nil
		}
		return TV{}, fmt.Errorf("len of %s", args[0].Sort)
	case "contains":
		return TV{fmt.Sprintf("(str.contains %s %s)", args[0].S, args[1].S), sBool, tBool}, nil
	case "containsAny":
		// expands over the characters of a literal second argument
		lit, ok := smtStringLit(args[1].S)
		if !ok {
			return TV{}, fmt.Errorf("containsAny needs a literal character set")
		}
		var ds []string
		for i := 0; i < len(lit); i++ {
			ds = append(ds, fmt.Sprintf("(str.contains %s %s)", args[0].S, smtString(lit[i:i+1])))
		}
		return TV{or(ds...), sBool, tBool}, nil
	case "hasPrefix":
		return TV{fmt.Sprintf("(str.prefixof %s %s)", args[1].S, args[0].S), sBool, tBool}, nil
	case "hasSuffix":
		return TV{fmt.Sprintf("(str.suffixof %s %s)", args[1].S, args[0].S), sBool, tBool}, nil
	case "indexOf":
		from := "0"
		if len(args) > 2 {
			from = args[2].S
		}
		return TV{fmt.Sprintf("(str.indexof %s %s %s)", args[0].S, args[1].S, from), sInt, tInt}, nil
	case "replaceAll":
		return TV{fmt.Sprintf("(str.replace_all %s %s %s)", args[0].S, args[1].S, args[2].S), sString, tStr}, nil
	case "char":
		return TV{fmt.Sprintf("(str.from_code %s)", args[0].S), sString, tStr}, nil
	case "str": // string content of a []byte
		a := args[0]
		k := e.arrKey(sInt)
		return TV{fmt.Sprintf("(bytesStr %s (slen %s))", sel(env.getComp(k, false), "(sbase "+a.S+")"), a.S), sString, tStr}, nil
	case "fresh":
		a := args[0]
		alloc0 := e.get(env.old, e.allocKey())
		r := a.S
		if a.Sort == sSlice {
			r = "(sbase " + a.S + ")"
		}
		return TV{fmt.Sprintf("(> %s %s)", r, alloc0), sBool, tBool}, nil
	case "callerFresh": // in a requires clause: the argument was allocated during the calling function's activation
		if env.callerEntry == nil {
			return TV{"true", sBool, tBool}, nil // inside the callee nothing is known about its caller
		}
		a := args[0]
		r := a.S
		if a.Sort == sSlice {
			r = "(sbase " + a.S + ")"
		}
		return TV{fmt.Sprintf("(> %s %s)", r, e.get(env.callerEntry, e.allocKey())), sBool, tBool}, nil
	case "allocated":
		a := args[0]
		al := env.getComp(e.allocKey(), false)
		return TV{fmt.Sprintf("(<= %s %s)", a.S, al), sBool, tBool}, nil
	case "isNil":
		return TV{eq(args[0].S, e.nilOf(args[0])), sBool, tBool}, nil
	case "isBool":
		return TV{"((_ is VBool) " + args[0].S + ")", sBool, tBool}, nil
	case "asBool":
		return TV{"(vbool " + args[0].S + ")", sBool, tBool}, nil
	case "isString":
		return TV{"((_ is VStr) " + args[0].S + ")", sBool, tBool}, nil
	case "asString":
		return TV{"(vstr " + args[0].S + ")", sString, tStr}, nil
	case "isInteger":
		return TV{"((_ is VInt) " + args[0].S + ")", sBool, tBool}, nil
	case "asInt":
		return TV{"(vint " + args[0].S + ")", sInt, tInt}, nil
	case "intKind":
		return TV{"(vkind " + args[0].S + ")", sInt, tInt}, nil
	case "isFloat":
		return TV{fmt.Sprintf("(or ((_ is VF64) %s) ((_ is VF32) %s))", args[0].S, args[0].S), sBool, tBool}, nil
	case "fpIsZero":
		return TV{fmt.Sprintf("(ite ((_ is VF64) %s) (fp.isZero (vf64 %s)) (and ((_ is VF32) %s) (fp.isZero (vf32 %s))))", args[0].S, args[0].S, args[0].S, args[0].S), sBool, tBool}, nil
	case "isRef":
		return TV{"((_ is VRef) " + args[0].S + ")", sBool, tBool}, nil
	case "refID":
		return TV{"(vid " + args[0].S + ")", sInt, tInt}, nil
	case "box": // box(x) of a typed term
		if args[0].T == nil {
			return TV{}, fmt.Errorf("box of untyped term")
		}
		return TV{e.box(args[0], args[0].T), sVal, types.NewInterfaceType(nil, nil)}, nil
	case "boxString":
		return TV{"(VStr " + args[0].S + ")", sVal, nil}, nil
	case "mapOf": // unbox a map[string]any from an any
		mt := types.NewMap(types.Typ[types.String], types.NewInterfaceType(nil, nil))
		return TV{"(vid " + args[0].S + ")", sInt, mt}, nil
	case "globalRef":
		name, ok := smtStringLit(args[0].S)
		if !ok {
			return TV{}, fmt.Errorf("globalRef needs a literal")
		}
		for _, sp := range e.w.prog.AllPackages() {
			for mn, m := range sp.Members {
				if g, ok := m.(*ssa.Global); ok && sp.Pkg.Name()+"."+mn == name {
					return e.val(g), nil
				}
			}
		}
		return TV{}, fmt.Errorf("unknown global %s", name)
	case "globalVal":
		name, ok := smtStringLit(args[0].S)
		if !ok {
			return TV{}, fmt.Errorf("globalVal needs a literal")
		}
		for _, sp := range e.w.prog.AllPackages() {
			for mn, m := range sp.Members {
				if g, ok := m.(*ssa.Global); ok && sp.Pkg.Name()+"."+mn == name {
					p := e.placeOf(g)
					t := deref(g.Type())
					return TV{e.placeLoad(env.st, p), e.sortOf(t), t}, nil
				}
			}
		}
		return TV{}, fmt.Errorf("unknown global %s", name)
	case "typeIs": // typeIs(v, "<type string>"): dynamic type test on an interface value
		name, ok := smtStringLit(args[1].S)
		if !ok {
			return TV{}, fmt.Errorf("typeIs needs a literal type string")
		}
		id, ok := e.w.so.typeIDs[name]
		if !ok {
			id = 100 + len(e.w.so.typeIDs)
			e.w.so.typeIDs[name] = id
			e.w.so.typeIDList = append(e.w.so.typeIDList, name)
		}
		return TV{fmt.Sprintf("(and ((_ is VRef) %s) (= (vtype %s) %d))", args[0].S, args[0].S, id), sBool, tBool}, nil
	case "isPtr", "ptrOf": // isPtr(v, "*T") / ptrOf(v, "*T"): dynamic type test and unboxing of a pointer (or map) held in an interface value
		name, ok := smtStringLit(args[1].S)
		if !ok {
			return TV{}, fmt.Errorf("%s needs a literal type", n.Fun)
		}
		t, err := e.w.evalType(env.pkg, name)
		if err != nil {
			return TV{}, err
		}
		switch t.Underlying().(type) {
		case *types.Pointer, *types.Map:
		default:
			return TV{}, fmt.Errorf("%s: %s is not a pointer or map type", n.Fun, name)
		}
		if n.Fun == "isPtr" {
			return TV{fmt.Sprintf("(and ((_ is VRef) %s) (= (vtype %s) %d))", args[0].S, args[0].S, e.w.so.typeID(t)), sBool, tBool}, nil
		}
		return TV{"(vid " + args[0].S + ")", sInt, t}, nil
	case "isMapStringAny":
		mt := types.NewMap(types.Typ[types.String], types.NewInterfaceType(nil, nil))
		return TV{fmt.Sprintf("(and ((_ is VRef) %s) (= (vtype %s) %d))", args[0].S, args[0].S, e.w.so.typeID(mt)), sBool, tBool}, nil
	case "visited": // visited(k): key already produced by the map range of the loop being specified
		if env.iterKey == "" {
			return TV{}, fmt.Errorf("visited() is only available in invariants of map-range loops")
		}
		return TV{sel(e.get(env.st, env.iterKey), args[0].S), sBool, tBool}, nil
	case "abs":
		return TV{fmt.Sprintf("(abs %s)", args[0].S), sInt, tInt}, nil
	case "trimSpaceOf": // r is s without leading/trailing ASCII space (relation)
		return TV{}, fmt.Errorf("trimSpaceOf not available")
	}
	return TV{}, fmt.Errorf("unknown function %q in contract", n.Fun)
}

// ---------- lemmas ----------

func (e *Enc) lemmaInstance(u *CallE, env *Env) (string, error) {
	lm := e.w.cs.Lemmas[u.Fun]
	if lm == nil {
		return "", fmt.Errorf("unknown lemma %s", u.Fun)
	}
	if len(u.Args) != len(lm.Params) {
		return "", fmt.Errorf("lemma %s: wrong argument count", u.Fun)
	}
	c := env.child()
	c.lookup = nil
	c.vars = map[string]TV{}
	for i, p := range lm.Params {
		a, err := e.evalExpr(u.Args[i], env)
		if err != nil {
			return "", err
		}
		c.vars[p.Name] = a
	}
	var reqs, enss []string
	for _, r := range lm.Requires {
		t, err := e.evalBool(r.E, c)
		if err != nil {
			return "", err
		}
		reqs = append(reqs, t)
	}
	for _, r := range lm.Ensures {
		t, err := e.evalBool(r.E, c)
		if err != nil {
			return "", err
		}
		enss = append(enss, t)
	}
	return imp(and(reqs...), and(enss...)), nil
}

func (e *Enc) useLemma(u *CallE, env *Env) {
	f, err := e.lemmaInstance(u, env)
	if err != nil {
		e.contractError("use:"+u.Fun, err)
		return
	}
	if e.curBlock != nil {
		e.assume(f)
	} else {
		e.assert(f)
	}
}

// smtStringLit decodes an SMT string literal produced by smtString.
func smtStringLit(t string) (string, bool) {
	if len(t) < 2 || t[0] != '"' || t[len(t)-1] != '"' {
		return "", false
	}
	body := t[1 : len(t)-1]
	var b strings.Builder
	for i := 0; i < len(body); i++ {
		c := body[i]
		if c == '"' {
			if i+1 < len(body) && body[i+1] == '"' {
				b.WriteByte('"')
				i++
				continue
			}
			return "", false
		}
		if c == '\\' && strings.HasPrefix(body[i:], "\\u{") {
			j := strings.IndexByte(body[i:], '}')
			if j < 0 {
				return "", false
			}
			var v int
			fmt.Sscanf(body[i+3:i+j], "%x", &v)
			b.WriteByte(byte(v))
			i += j
			continue
		}
		b.WriteByte(c)
	}
	return b.String(), true
}

// wfHeapTerm asserts type well-formedness of a ground term read from the heap by a contract.
func (e *Enc) wfHeapTerm(t string, ty types.Type) {
	if e.wfSeen == nil {
		e.wfSeen = map[string]bool{}
	}
	if e.wfSeen[t] {
		return
	}
	e.wfSeen[t] = true
	switch ty.Underlying().(type) {
	case *types.Slice:
		e.fact(fmt.Sprintf("(and (>= (slen %s) 0) (>= (sbase %s) 0) (=> (= (sbase %s) 0) (= (slen %s) 0)))", t, t, t, t))
	case *types.Interface:
		e.fact(fmt.Sprintf("(wfVal %s)", t))
	}
}

// pkgGlobal reads a package-level variable of the contract's package in the environment's state.
func (e *Enc) pkgGlobal(env *Env, name string) (TV, bool) {
	if env.spec != nil {
		return TV{}, false
	}
	for _, sp := range e.w.prog.AllPackages() {
		if sp.Pkg.Path() != env.pkg {
			continue
		}
		g, ok := sp.Members[name].(*ssa.Global)
		if !ok {
			return TV{}, false
		}
		p := e.placeOf(g)
		t := deref(g.Type())
		return TV{e.placeLoad(env.st, p), e.sortOf(t), t}, true
	}
	return TV{}, false
}

// betterBinding looks for a non-constant SSA value bound to obj by some DebugRef whose definition dominates b.
func (e *Enc) betterBinding(obj types.Object, b *ssa.BasicBlock) ssa.Value {
	var best ssa.Value
	bestDepth, bestIdx := -1, -1
	depth := func(x *ssa.BasicBlock) int {
		n := 0
		for d := x.Idom(); d != nil; d = d.Idom() {
			n++
		}
		return n
	}
	for _, blk := range e.fn.Blocks {
		for _, in := range blk.Instrs {
			dr, ok := in.(*ssa.DebugRef)
			if !ok || dr.IsAddr || dr.Object() != obj {
				continue
			}
			def, ok := dr.X.(ssa.Instruction)
			if !ok {
				continue
			}
			if _, isPhi := dr.X.(*ssa.Phi); isPhi {
				continue
			}
			db := def.Block()
			if db == nil || !(db == b.Idom() || db.Dominates(b)) || db == b {
				continue
			}
			idx := 0
			for i, y := range db.Instrs {
				if y == def {
					idx = i
				}
			}
			d := depth(db)
			if d > bestDepth || (d == bestDepth && idx > bestIdx) {
				best, bestDepth, bestIdx = dr.X, d, idx
			}
		}
	}
	return best
}

// cellOf returns the Alloc that holds source variable obj, if the variable is not register-allocated.
func (e *Enc) cellOf(obj types.Object) *ssa.Alloc {
	for _, b := range e.fn.Blocks {
		for _, in := range b.Instrs {
			if a, ok := in.(*ssa.Alloc); ok && a.Comment == obj.Name() && a.Pos() == obj.Pos() {
				return a
			}
		}
	}
	return nil
}

// currentParams: inside the body (loop invariants, assert clauses) the name of a parameter that lives in a cell
// (address-taken or captured, hence assignable through the cell) denotes its current content; old(p) is its entry value.
func (e *Enc) currentParams(env *Env, st *State) {
	if e.fn == nil {
		return
	}
	ov := map[string]TV{}
	for k, v := range env.vars {
		ov[k] = v
	}
	env.oldVars = ov
	for i, p := range e.fn.Params {
		obj, _ := p.Object().(*types.Var)
		if obj == nil {
			continue
		}
		cell := e.cellOf(obj)
		if cell == nil {
			continue
		}
		pl := e.placeOf(cell)
		cur := TV{e.placeLoad(st, pl), e.sortOf(pl.T), pl.T}
		env.vars[p.Name()] = cur
		if e.ctr != nil {
			names := e.ctr.Params
			if e.ctr.RecvName != "" && e.fn.Signature.Recv() != nil {
				names = append([]string{e.ctr.RecvName}, names...)
			}
			if i < len(names) {
				env.vars[names[i]] = cur
			}
		}
	}
}
