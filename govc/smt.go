package main

// SMT-level vocabulary: sorts for Go types, datatypes generated on demand, terms.

import (
	"fmt"
	"go/constant"
	"go/types"
	"sort"
	"strconv"
	"strings"
)

// TV is a typed SMT term.
type TV struct {
	S    string     // SMT-LIB text
	Sort string     // SMT sort text
	T    types.Type // Go type if known (needed for slices, maps, pointers)
}

const (
	sInt    = "Int"
	sBool   = "Bool"
	sString = "String"
	sVal    = "Val"
	sSlice  = "Slice"
	sF64    = "(_ FloatingPoint 11 53)"
	sF32    = "(_ FloatingPoint 8 24)"
)

// Sorts holds program-wide sort declarations (shared by all functions of a run).
type Sorts struct {
	structName map[string]string   // canonical type string -> datatype name
	structDecl []string            // declare-datatypes lines in dependency order
	structInfo map[string]*structI // datatype name -> info
	optDecl    map[string]string   // value sort -> Opt datatype name
	optOrder   []string
	typeIDs    map[string]int
	typeIDList []string
	unbox      map[string]string // sort -> unbox function name
	unboxOrder []string
	n          int
}

type structI struct {
	Name   string
	Fields []string // selector names
	Sorts  []string
	GoT    *types.Struct
}

func newSorts() *Sorts {
	return &Sorts{structName: map[string]string{}, structInfo: map[string]*structI{}, optDecl: map[string]string{}, typeIDs: map[string]int{}, unbox: map[string]string{}}
}

func sanitize(s string) string {
	var b strings.Builder
	for _, c := range s {
		if (c >= 'a' && c <= 'z') || (c >= 'A' && c <= 'Z') || (c >= '0' && c <= '9') || c == '_' {
			b.WriteRune(c)
		} else {
			b.WriteByte('_')
		}
	}
	return b.String()
}

// sortOf maps a Go type to its SMT sort.
func (so *Sorts) sortOf(t types.Type) string {
	switch u := t.Underlying().(type) {
	case *types.Basic:
		switch {
		case u.Info()&types.IsBoolean != 0:
			return sBool
		case u.Info()&types.IsInteger != 0:
			return sInt
		case u.Info()&types.IsString != 0:
			return sString
		case u.Kind() == types.Float32:
			return sF32
		case u.Info()&types.IsFloat != 0:
			return sF64
		case u.Kind() == types.UnsafePointer:
			return sInt
		case u.Kind() == types.UntypedNil:
			return sVal
		}
		return sInt
	case *types.Pointer, *types.Map, *types.Signature, *types.Chan:
		return sInt
	case *types.Slice:
		return sSlice
	case *types.Interface:
		return sVal
	case *types.Array:
		return "(Array Int " + so.sortOf(u.Elem()) + ")"
	case *types.Struct:
		return so.structSort(t, u)
	case *types.Tuple:
		return "Tuple"
	}
	return sInt
}

func (so *Sorts) structSort(t types.Type, u *types.Struct) string {
	key := types.TypeString(t, nil)
	if _, ok := t.(*types.Named); !ok {
		key = types.TypeString(u, nil)
	}
	if n, ok := so.structName[key]; ok {
		return n
	}
	base := "S_" + sanitize(key)
	if len(base) > 60 {
		so.n++
		base = fmt.Sprintf("%s_%d", base[:50], so.n)
	}
	so.structName[key] = base
	info := &structI{Name: base, GoT: u}
	so.structInfo[base] = info
	var fs []string
	for i := 0; i < u.NumFields(); i++ {
		f := u.Field(i)
		fsort := so.sortOf(f.Type())
		sel := fmt.Sprintf("%s_%s", base, sanitize(f.Name()))
		if f.Name() == "_" {
			sel = fmt.Sprintf("%s_blank%d", base, i)
		}
		info.Fields = append(info.Fields, sel)
		info.Sorts = append(info.Sorts, fsort)
		fs = append(fs, fmt.Sprintf("(%s %s)", sel, fsort))
	}
	if len(fs) == 0 {
		so.structDecl = append(so.structDecl, fmt.Sprintf("(declare-datatypes ((%s 0)) (((mk_%s))))", base, base))
	} else {
		so.structDecl = append(so.structDecl, fmt.Sprintf("(declare-datatypes ((%s 0)) (((mk_%s %s))))", base, base, strings.Join(fs, " ")))
	}
	return base
}

// optSort returns the option datatype for a value sort.
func (so *Sorts) optSort(vs string) string {
	if n, ok := so.optDecl[vs]; ok {
		return n
	}
	n := "Opt_" + sanitize(vs)
	so.optDecl[vs] = n
	so.optOrder = append(so.optOrder, fmt.Sprintf("(declare-datatypes ((%s 0)) (((None_%s) (Some_%s (get_%s %s)))))", n, n, n, n, vs))
	return n
}

func (so *Sorts) typeID(t types.Type) int {
	k := strings.ReplaceAll(types.TypeString(t, nil), "interface{}", "any")
	if id, ok := so.typeIDs[k]; ok {
		return id
	}
	id := 100 + len(so.typeIDs)
	so.typeIDs[k] = id
	so.typeIDList = append(so.typeIDList, k)
	return id
}

func (so *Sorts) unboxFn(sortName string) string {
	if f, ok := so.unbox[sortName]; ok {
		return f
	}
	f := "unbox_" + sanitize(sortName)
	so.unbox[sortName] = f
	so.unboxOrder = append(so.unboxOrder, fmt.Sprintf("(declare-fun %s (Int) %s)", f, sortName))
	return f
}

// zero returns the zero value term of a sort/type.
func (so *Sorts) zero(t types.Type) string {
	return so.zeroSort(so.sortOf(t))
}

func (so *Sorts) zeroSort(s string) string {
	switch s {
	case sInt:
		return "0"
	case sBool:
		return "false"
	case sString:
		return "\"\""
	case sVal:
		return "VNil"
	case sSlice:
		return "(mkslice 0 0)"
	case sF64:
		return "(_ +zero 11 53)"
	case sF32:
		return "(_ +zero 8 24)"
	}
	if strings.HasPrefix(s, "(Array Int ") {
		el := strings.TrimSuffix(strings.TrimPrefix(s, "(Array Int "), ")")
		return fmt.Sprintf("((as const %s) %s)", s, so.zeroSort(el))
	}
	if info, ok := so.structInfo[s]; ok {
		if len(info.Fields) == 0 {
			return "mk_" + s
		}
		var z []string
		for _, fs := range info.Sorts {
			z = append(z, so.zeroSort(fs))
		}
		return fmt.Sprintf("(mk_%s %s)", s, strings.Join(z, " "))
	}
	if strings.HasPrefix(s, "Opt_") {
		return "None_" + s
	}
	return "0"
}

const preludeFixed = `(set-option :produce-models true)
(set-logic ALL)
(declare-datatypes ((Slice 0)) (((mkslice (sbase Int) (slen Int)))))
(declare-datatypes ((Val 0)) (((VNil) (VBool (vbool Bool)) (VStr (vstr String)) (VInt (vkind Int) (vint Int)) (VF64 (vf64 (_ FloatingPoint 11 53))) (VF32 (vf32 (_ FloatingPoint 8 24))) (VRef (vtype Int) (vid Int)))))
(define-fun byteAt ((s String) (i Int)) Int (str.to_code (str.at s i)))
(define-fun intRangeOK ((k Int) (n Int)) Bool
  (ite (= k 2) (and (<= (- 9223372036854775808) n) (<= n 9223372036854775807))
  (ite (= k 3) (and (<= (- 128) n) (<= n 127))
  (ite (= k 4) (and (<= (- 32768) n) (<= n 32767))
  (ite (= k 5) (and (<= (- 2147483648) n) (<= n 2147483647))
  (ite (= k 6) (and (<= (- 9223372036854775808) n) (<= n 9223372036854775807))
  (ite (= k 7) (and (<= 0 n) (<= n 18446744073709551615))
  (ite (= k 8) (and (<= 0 n) (<= n 255))
  (ite (= k 9) (and (<= 0 n) (<= n 65535))
  (ite (= k 10) (and (<= 0 n) (<= n 4294967295))
  (ite (= k 11) (and (<= 0 n) (<= n 18446744073709551615))
  (ite (= k 12) (and (<= 0 n) (<= n 18446744073709551615)) false))))))))))))
(define-fun wfVal ((v Val)) Bool
  (and (=> ((_ is VInt) v) (intRangeOK (vkind v) (vint v)))
       (=> ((_ is VF64) v) (not (fp.isNaN (vf64 v))))
       (=> ((_ is VF32) v) (not (fp.isNaN (vf32 v))))
       (=> ((_ is VRef) v) (and (>= (vtype v) 100) (>= (vid v) 0)))))
`

func (so *Sorts) prelude() string {
	var b strings.Builder
	b.WriteString(preludeFixed)
	for _, d := range so.structDecl {
		b.WriteString(d + "\n")
	}
	for _, d := range so.optOrder {
		b.WriteString(d + "\n")
	}
	for _, d := range so.unboxOrder {
		b.WriteString(d + "\n")
	}
	return b.String()
}

func smtString(s string) string {
	var b strings.Builder
	b.WriteByte('"')
	for i := 0; i < len(s); i++ {
		c := s[i]
		switch {
		case c == '"':
			b.WriteString("\"\"")
		case c < 0x20 || c >= 0x7f || c == '\\':
			fmt.Fprintf(&b, "\\u{%x}", c)
		default:
			b.WriteByte(c)
		}
	}
	b.WriteByte('"')
	return b.String()
}

func smtInt(n int64) string {
	if n < 0 {
		return "(- " + strconv.FormatUint(uint64(-n), 10) + ")"
	}
	return strconv.FormatInt(n, 10)
}

func smtBigInt(s string) string {
	if strings.HasPrefix(s, "-") {
		return "(- " + s[1:] + ")"
	}
	return s
}

func and(xs ...string) string {
	var ys []string
	for _, x := range xs {
		if x == "true" || x == "" {
			continue
		}
		if x == "false" {
			return "false"
		}
		ys = append(ys, x)
	}
	switch len(ys) {
	case 0:
		return "true"
	case 1:
		return ys[0]
	}
	return "(and " + strings.Join(ys, " ") + ")"
}

func or(xs ...string) string {
	var ys []string
	for _, x := range xs {
		if x == "false" || x == "" {
			continue
		}
		if x == "true" {
			return "true"
		}
		ys = append(ys, x)
	}
	switch len(ys) {
	case 0:
		return "false"
	case 1:
		return ys[0]
	}
	return "(or " + strings.Join(ys, " ") + ")"
}

func not(x string) string {
	if x == "true" {
		return "false"
	}
	if x == "false" {
		return "true"
	}
	return "(not " + x + ")"
}

func imp(a, b string) string {
	if a == "true" {
		return b
	}
	if a == "false" || b == "true" {
		return "true"
	}
	return "(=> " + a + " " + b + ")"
}

func eq(a, b string) string { return "(= " + a + " " + b + ")" }

func ite(c, a, b string) string {
	if c == "true" {
		return a
	}
	if c == "false" {
		return b
	}
	if a == b {
		return a
	}
	return "(ite " + c + " " + a + " " + b + ")"
}

func sel(a, i string) string      { return "(select " + a + " " + i + ")" }
func store(a, i, v string) string { return "(store " + a + " " + i + " " + v + ")" }

// constTerm translates a Go constant of a given type.
func (so *Sorts) constTerm(v constant.Value, t types.Type) (string, bool) {
	s := so.sortOf(t)
	if v == nil { // nil constant
		return so.zeroSort(s), true
	}
	switch s {
	case sBool:
		if constant.BoolVal(v) {
			return "true", true
		}
		return "false", true
	case sInt:
		iv := constant.ToInt(v)
		if iv.Kind() != constant.Int {
			return "", false
		}
		return smtBigInt(iv.ExactString()), true
	case sString:
		return smtString(constant.StringVal(v)), true
	case sF64, sF32:
		f, _ := constant.Float64Val(v)
		eb, sb := "11", "53"
		if s == sF32 {
			eb, sb = "8", "24"
		}
		if f == 0 {
			return fmt.Sprintf("(_ +zero %s %s)", eb, sb), true
		}
		r := constant.ToFloat(v)
		num, den := constant.Num(r), constant.Denom(r)
		if num.Kind() == constant.Int && den.Kind() == constant.Int {
			ns := num.ExactString()
			neg := strings.HasPrefix(ns, "-")
			ns = strings.TrimPrefix(ns, "-")
			real := fmt.Sprintf("(/ %s.0 %s.0)", ns, den.ExactString())
			if neg {
				real = "(- " + real + ")"
			}
			return fmt.Sprintf("((_ to_fp %s %s) RNE %s)", eb, sb, real), true
		}
		return "", false
	}
	return "", false
}

func sortedKeys[V any](m map[string]V) []string {
	var ks []string
	for k := range m {
		ks = append(ks, k)
	}
	sort.Strings(ks)
	return ks
}
