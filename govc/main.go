package main

import (
	"flag"
	"fmt"
	"os"
	"regexp"
	"runtime/debug"
	"sort"
	"strings"
	"time"

	"golang.org/x/tools/go/ssa"
)

type FuncReport struct {
	Key        string
	Flags      []string
	Unmodelled []string
	Obls       []*Obl
	Err        string
	HasCtr     bool
	Trusted    bool
}

// encodeFunc runs both passes over one function.
func encodeFunc(w *World, fn *ssa.Function, noPanics bool) (rep *FuncReport) {
	rep = &FuncReport{Key: fnKey(fn)}
	defer func() {
		if r := recover(); r != nil {
			rep.Err = fmt.Sprintf("encoder panic: %v\n%s", r, debug.Stack())
			rep.Obls = nil
		}
	}()
	if len(fn.Blocks) == 0 {
		rep.Err = "no body"
		return
	}
	e := newEnc(w, fn)
	rep.HasCtr = e.ctr != nil
	if e.ctr != nil && e.ctr.Trusted {
		rep.Trusted = true
		// the body of a trusted function is not verified against its contract, but the determinism sweep
		// (a dataflow rule, see order.go) still looks at it
		e.analyseCFG()
		e.compSort = map[string]string{}
		e.reset()
		e.pass = 2
		e.orderObligations()
		rep.Obls = e.obls
		return
	}
	e.noPanics = noPanics
	e.analyseCFG()
	e.analyseAllocs()
	// pass 1: discover loop-modified components
	e.compSort = map[string]string{}
	e.reset()
	e.pass = 1
	e.encode()
	for _, li := range e.loopList {
		li.mods = map[string]bool{}
		li.genMods = map[string]bool{}
		li.targets = map[string][]ssa.Value{}
		cnt := map[string]int{}
		for b := range li.body {
			for k, n := range e.genCount[b] {
				cnt[k] += n
			}
			for k, vs := range e.genNotes[b] {
				li.targets[k] = append(li.targets[k], vs...)
			}
			for k := range e.genWrites[b] {
				li.genMods[k] = true
			}
			for k := range e.writes[b] {
				li.mods[k] = true
			}
			if e.havocs[b] {
				li.all = true
			}
		}
		// keep the target list only if every general write is accounted for and every target is defined outside the loop
		for k, vs := range li.targets {
			ok := len(vs) == cnt[k]
			for _, v := range vs {
				if in, isI := v.(ssa.Instruction); isI && li.body[in.Block()] {
					ok = false
				}
			}
			if !ok {
				delete(li.targets, k)
			}
		}
	}
	cs := e.compSort
	e.reset()
	for k, v := range cs {
		e.compSort[k] = v
	}
	e.pass = 2
	e.encode()
	rep.Obls = e.obls
	rep.Flags = sortedKeys(e.flags)
	rep.Unmodelled = sortedKeys(e.unmodelled)
	return
}

func inScope(key string) bool {
	if strings.HasPrefix(key, modulePath+"/diff::") || strings.HasPrefix(key, modulePath+"/tests::") || strings.HasPrefix(key, modulePath+"/tests/") {
		return false
	}
	return strings.HasPrefix(key, modulePath)
}

func main() {
	if len(os.Args) < 2 {
		fmt.Fprintln(os.Stderr, "usage: govc run|check|baseline ...")
		os.Exit(2)
	}
	switch os.Args[1] {
	case "run":
		cmdRun(os.Args[2:])
	case "check":
		os.Exit(cmdCheck(os.Args[2:]))
	case "baseline":
		os.Exit(cmdBaseline(os.Args[2:]))
	case "callees":
		cmdCallees(os.Args[2:])
	case "edges":
		cmdEdges(os.Args[2:])
	default:
		fmt.Fprintln(os.Stderr, "unknown command")
		os.Exit(2)
	}
}

func cmdRun(args []string) {
	fs := flag.NewFlagSet("run", flag.ExitOnError)
	repo := fs.String("repo", "/repo", "")
	verif := fs.String("verif", "/verif", "")
	fnRe := fs.String("fn", ".", "regexp on function key")
	oblRe := fs.String("obl", ".", "regexp on obligation name")
	tier := fs.String("tier", "quick", "")
	dump := fs.String("dump", "", "directory for SMT files")
	noPanics := fs.Bool("nopanics", false, "")
	showModel := fs.Bool("model", false, "")
	onlyCtr := fs.Bool("ctr", false, "only functions with contracts")
	fs.Parse(args)
	t0 := time.Now()
	w, err := loadWorld(*repo, []string{*verif + "/stubs"})
	if err != nil {
		fmt.Fprintln(os.Stderr, err)
		os.Exit(2)
	}
	for _, e := range w.specs.errors() {
		fmt.Println("SPEC ERROR:", e)
	}
	fmt.Printf("loaded in %.1fs: %d functions, %d contracts, %d specs\n", time.Since(t0).Seconds(), len(w.funcs), len(w.cs.Funcs), len(w.cs.Specs))
	re := regexp.MustCompile(*fnRe)
	ore := regexp.MustCompile(*oblRe)
	var obls []*Obl
	if *dump != "" {
		os.MkdirAll(*dump, 0o755)
	}
	for _, key := range sortedKeys(w.funcs) {
		if !inScope(key) || !re.MatchString(key) {
			continue
		}
		if *onlyCtr && w.cs.Funcs[key] == nil {
			continue
		}
		rep := encodeFunc(w, w.funcs[key], *noPanics)
		if rep.Err != "" {
			fmt.Printf("ENCODER ERROR %s: %s\n", key, rep.Err)
			continue
		}
		if len(rep.Flags) > 0 || len(rep.Unmodelled) > 0 {
			fmt.Printf("  %s flags=%v unmodelled=%v\n", shortKey(key), rep.Flags, rep.Unmodelled)
		}
		for _, o := range rep.Obls {
			if ore.MatchString(o.Name) {
				obls = append(obls, o)
			}
		}
		if len(rep.Obls) > 0 && rep.Obls[0].enc != nil {
			for _, o := range rep.Obls[0].enc.coverObls() {
				if ore.MatchString(o.Name) && strings.Contains(*oblRe, "cover") {
					obls = append(obls, o)
				}
			}
		}
	}
	for _, o := range w.lemmaObligations() {
		if re.MatchString(o.Name) && ore.MatchString(o.Name) {
			obls = append(obls, o)
		}
	}
	fmt.Printf("%d obligations\n", len(obls))
	res := solveAll(w, obls, *tier, 16, *dump)
	counts := map[string]int{}
	sort.SliceStable(res, func(i, j int) bool { return res[i].Obl.Name < res[j].Obl.Name })
	for _, r := range res {
		counts[r.Status]++
		if r.Status == "discharged" && os.Getenv("GOVC_LIST") != "" {
			fmt.Printf("ok         %s [%s %.2fs]\n", strings.TrimPrefix(r.Obl.Name, modulePath), r.Solver, r.Seconds)
		}
		if r.Status != "discharged" {
			fmt.Printf("%-10s %s  [%s %.2fs] %s:%d %s\n", r.Status, strings.TrimPrefix(r.Obl.Name, modulePath), r.Solver, r.Seconds, strings.TrimPrefix(r.Obl.Pos.Filename, "/repo/"), r.Obl.Pos.Line, firstLines(nonModel(r.Output), 2))
			if *showModel && r.Model != "" {
				fmt.Println(modelSummary(r))
			}
		}
	}
	fmt.Printf("summary: %v  total %.1fs\n", counts, time.Since(t0).Seconds())
}

func nonModel(s string) string {
	if strings.HasPrefix(s, "sat") {
		return "sat"
	}
	return s
}

// modelSummary prints the model values of the function inputs.
func modelSummary(r *Result) string {
	m := parseModel(r.Model)
	var b strings.Builder
	for _, in := range r.Obl.Inputs {
		if v, ok := m[in]; ok {
			fmt.Fprintf(&b, "    %s = %s\n", in, v)
		}
	}
	return b.String()
}

// parseModel extracts (define-fun name () Sort value) entries.
func parseModel(s string) map[string]string {
	out := map[string]string{}
	i := 0
	for {
		j := strings.Index(s[i:], "(define-fun ")
		if j < 0 {
			break
		}
		start := i + j
		depth := 0
		end := start
		for k := start; k < len(s); k++ {
			if s[k] == '"' { // skip strings
				k++
				for k < len(s) {
					if s[k] == '"' {
						if k+1 < len(s) && s[k+1] == '"' {
							k += 2
							continue
						}
						break
					}
					k++
				}
				continue
			}
			if s[k] == '(' {
				depth++
			}
			if s[k] == ')' {
				depth--
				if depth == 0 {
					end = k + 1
					break
				}
			}
		}
		entry := s[start:end]
		i = end
		if end <= start {
			break
		}
		// (define-fun NAME () SORT VALUE)
		rest := strings.TrimPrefix(entry, "(define-fun ")
		sp := strings.IndexAny(rest, " \n")
		if sp < 0 {
			continue
		}
		name := rest[:sp]
		rest = strings.TrimSpace(rest[sp:])
		if !strings.HasPrefix(rest, "()") {
			continue
		}
		rest = strings.TrimSpace(rest[2:])
		// skip sort
		var k int
		if strings.HasPrefix(rest, "(") {
			d := 0
			for k = 0; k < len(rest); k++ {
				if rest[k] == '(' {
					d++
				}
				if rest[k] == ')' {
					d--
					if d == 0 {
						k++
						break
					}
				}
			}
		} else {
			k = strings.IndexAny(rest, " \n")
		}
		if k < 0 || k >= len(rest) {
			continue
		}
		val := strings.TrimSpace(rest[k:])
		val = strings.TrimSuffix(val, ")")
		out[name] = strings.Join(strings.Fields(val), " ")
	}
	return out
}

// cmdCallees lists the functions reachable from a root through static calls, with their contract status.
func cmdCallees(args []string) {
	w, err := loadWorld("/repo", []string{"/verif/stubs"})
	if err != nil {
		fmt.Println(err)
		return
	}
	root := args[0]
	seen := map[string]bool{}
	var visit func(k string, depth int)
	visit = func(k string, depth int) {
		if seen[k] {
			return
		}
		seen[k] = true
		fn := w.funcs[k]
		status := "-"
		if c := w.cs.Funcs[k]; c != nil {
			status = "contract"
			if c.Trusted {
				status = "trusted"
			}
			if c.HasMod {
				status += "+mod"
			}
		} else if w.inferredPure[k] {
			status = "inferred-pure"
		}
		fmt.Printf("%s%s [%s]\n", strings.Repeat("  ", depth), shortKey(k), status)
		if fn == nil {
			return
		}
		ext := map[string]bool{}
		for _, b := range fn.Blocks {
			for _, in := range b.Instrs {
				ci, ok := in.(ssa.CallInstruction)
				if !ok {
					continue
				}
				c := ci.Common()
				if c.IsInvoke() {
					ext["invoke "+c.Method.FullName()] = true
					continue
				}
				f := c.StaticCallee()
				if f == nil {
					if _, isB := c.Value.(*ssa.Builtin); !isB {
						ext["dynamic"] = true
					}
					continue
				}
				fk := fnKey(f)
				if _, inRepo := w.funcs[fk]; inRepo {
					visit(fk, depth+1)
				} else {
					st := "ext"
					if w.cs.Funcs[fk] != nil {
						st = "stub"
					} else if w.isPureExternal(fk) {
						st = "pure"
					}
					if st == "ext" {
						ext[fk] = true
					}
				}
			}
		}
		for _, x := range sortedKeys(ext) {
			fmt.Printf("%s  ! %s\n", strings.Repeat("  ", depth), x)
		}
	}
	for k := range w.funcs {
		if strings.HasSuffix(k, root) {
			visit(k, 0)
		}
	}
}

// cmdEdges lists CFG edges that are infeasible under the assumed contracts (candidates for hidden inconsistencies).
func cmdEdges(args []string) {
	w, err := loadWorld("/repo", []string{"/verif/stubs"})
	if err != nil {
		fmt.Println(err)
		return
	}
	re := regexp.MustCompile(args[0])
	var obls []*Obl
	for _, key := range sortedKeys(w.funcs) {
		if !inScope(key) || !re.MatchString(key) || w.cs.Funcs[key] == nil || w.cs.Funcs[key].Trusted {
			continue
		}
		fn := w.funcs[key]
		if len(fn.Blocks) == 0 {
			continue
		}
		e := newEnc(w, fn)
		e.noPanics = true
		e.analyseCFG()
		e.analyseAllocs()
		e.compSort = map[string]string{}
		e.reset()
		e.pass = 1
		func() {
			defer func() { recover() }()
			e.encode()
			for _, li := range e.loopList {
				li.mods = map[string]bool{}
				li.genMods = map[string]bool{}
				li.targets = map[string][]ssa.Value{}
				for b := range li.body {
					for k := range e.writes[b] {
						li.mods[k] = true
					}
					for k := range e.genWrites[b] {
						li.genMods[k] = true
					}
					if e.havocs[b] {
						li.all = true
					}
				}
			}
			cs := e.compSort
			e.reset()
			for k, v := range cs {
				e.compSort[k] = v
			}
			e.pass = 2
			e.encode()
		}()
		for k, cond := range e.edgeCond {
			obls = append(obls, &Obl{Fn: key, Name: fmt.Sprintf("%s#edge:b%d->b%d", key, k[0], k[1]), Kind: "cover", NAssert: len(e.asserts), Guard: cond, Goal: "false", enc: e})
		}
	}
	res := solveAll(w, obls, "quick", 12, "")
	n := 0
	for _, r := range res {
		if r.Status == "discharged" {
			n++
			e := r.Obl.enc
			var from, to int
			fmt.Sscanf(r.Obl.Name[strings.Index(r.Obl.Name, "#edge:b")+7:], "%d->b%d", &from, &to)
			pos := ""
			if from < len(e.fn.Blocks) && len(e.fn.Blocks[from].Instrs) > 0 {
				last := e.fn.Blocks[from].Instrs[len(e.fn.Blocks[from].Instrs)-1]
				pos = w.fset.Position(last.Pos()).String()
				if iff, ok := last.(*ssa.If); ok {
					pos = w.fset.Position(iff.Cond.Pos()).String() + " cond=" + iff.Cond.String()
				}
			}
			fmt.Printf("INFEASIBLE %s  (%s)\n", strings.TrimPrefix(r.Obl.Name, modulePath), strings.TrimPrefix(pos, "/repo/"))
		}
	}
	fmt.Printf("%d edges, %d infeasible\n", len(res), n)
}
