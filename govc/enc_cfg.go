package main

import (
	"fmt"
	"go/types"
	"sort"
	"strings"

	"golang.org/x/tools/go/ssa"
)

// analyseCFG computes RPO, back edges and natural loops.
func (e *Enc) analyseCFG() {
	fn := e.fn
	e.backEdge = map[[2]int]bool{}
	e.loops = map[*ssa.BasicBlock]*loopInfo{}
	e.loopList = nil
	for _, b := range fn.Blocks {
		for _, s := range b.Succs {
			if s.Dominates(b) {
				e.backEdge[[2]int{b.Index, s.Index}] = true
				li := e.loops[s]
				if li == nil {
					li = &loopInfo{header: s, body: map[*ssa.BasicBlock]bool{s: true}}
					e.loops[s] = li
				}
				// natural loop: blocks reaching b without passing through s
				stack := []*ssa.BasicBlock{b}
				for len(stack) > 0 {
					x := stack[len(stack)-1]
					stack = stack[:len(stack)-1]
					if li.body[x] {
						continue
					}
					li.body[x] = true
					for _, p := range x.Preds {
						stack = append(stack, p)
					}
				}
			}
		}
	}
	for _, li := range e.loops {
		e.loopList = append(e.loopList, li)
	}
	sort.Slice(e.loopList, func(i, j int) bool { return e.loopList[i].header.Index < e.loopList[j].header.Index })
	for i, li := range e.loopList {
		li.ordinal = i
		if e.ctr != nil {
			li.spec = e.ctr.Loops[i]
		}
	}
	// RPO ignoring back edges
	seen := map[*ssa.BasicBlock]bool{}
	var post []*ssa.BasicBlock
	var dfs func(b *ssa.BasicBlock)
	dfs = func(b *ssa.BasicBlock) {
		seen[b] = true
		for _, s := range b.Succs {
			if e.backEdge[[2]int{b.Index, s.Index}] || seen[s] {
				continue
			}
			dfs(s)
		}
		post = append(post, b)
	}
	if len(fn.Blocks) > 0 {
		dfs(fn.Blocks[0])
	}
	e.rpo = nil
	for i := len(post) - 1; i >= 0; i-- {
		e.rpo = append(e.rpo, post[i])
	}
}

// analyseAllocs decides which Allocs are private (address never escapes).
func (e *Enc) analyseAllocs() {
	e.private = map[*ssa.Alloc]bool{}
	var ok func(v ssa.Value, depth int) bool
	ok = func(v ssa.Value, depth int) bool {
		refs := v.Referrers()
		if refs == nil {
			return false
		}
		for _, r := range *refs {
			switch x := r.(type) {
			case *ssa.Store:
				if x.Val == v {
					return false
				}
			case *ssa.UnOp:
				if x.Op.String() != "*" {
					return false
				}
			case *ssa.FieldAddr:
				if !ok(x, depth+1) {
					return false
				}
			case *ssa.IndexAddr:
				if x.X != v || !ok(x, depth+1) {
					return false
				}
			case *ssa.DebugRef:
			case *ssa.Slice:
				// slicing a local array: contents are copied into a fresh backing store (aliasing dropped)
				if _, isArr := deref(v.Type()).Underlying().(*types.Array); !isArr || depth > 0 {
					return false
				}
			default:
				return false
			}
		}
		return true
	}
	// argOnly: the address leaves the function only as a direct call argument (e.g. a pointer-receiver method call);
	// such a cell can be changed only by the calls that receive it
	var argOnly func(v ssa.Value) bool
	argOnly = func(v ssa.Value) bool {
		refs := v.Referrers()
		if refs == nil {
			return false
		}
		for _, r := range *refs {
			switch x := r.(type) {
			case *ssa.Store:
				if x.Val == v {
					return false
				}
			case *ssa.UnOp:
				if x.Op.String() != "*" {
					return false
				}
			case *ssa.FieldAddr, *ssa.IndexAddr:
				if !ok(x.(ssa.Value), 1) {
					return false
				}
			case *ssa.DebugRef:
			case *ssa.Call:
				for _, a := range x.Call.Args {
					_ = a
				}
				if x.Call.Value == v {
					return false
				}
			default:
				return false
			}
		}
		return true
	}
	e.cells = nil
	for _, b := range e.fn.Blocks {
		for _, in := range b.Instrs {
			if a, isA := in.(*ssa.Alloc); isA {
				if ok(a, 0) {
					e.private[a] = true
				} else if argOnly(a) {
					e.cells = append(e.cells, a)
				}
			}
		}
	}
	for _, fv := range e.fn.FreeVars {
		if argOnly(fv) {
			e.cells = append(e.cells, fv)
		}
	}
}

// cellTouched: is the cell passed to a call or stored to (directly or through a field) in one of the blocks?
func cellTouched(v ssa.Value, blocks map[*ssa.BasicBlock]bool) bool {
	refs := v.Referrers()
	if refs == nil {
		return false
	}
	for _, r := range *refs {
		if blocks != nil && !blocks[r.Block()] {
			continue
		}
		switch x := r.(type) {
		case *ssa.Store:
			if x.Addr == v {
				return true
			}
		case *ssa.Call:
			return true
		case *ssa.FieldAddr:
			if cellTouched(x, blocks) {
				return true
			}
		case *ssa.IndexAddr:
			if cellTouched(x, blocks) {
				return true
			}
		}
	}
	return false
}

// saveCells records the contents of the function's own variable cells that a call cannot reach.
func (e *Enc) saveCells(skip func(v ssa.Value) bool) []savedCell {
	var out []savedCell
	for _, c := range e.cells {
		tv, ok := e.vals[c]
		if !ok || skip(c) {
			continue
		}
		t := deref(c.Type())
		sc := savedCell{ref: tv.S, t: t}
		if st, isS := t.Underlying().(*types.Struct); isS {
			ss := e.sortOf(t)
			for i := 0; i < st.NumFields(); i++ {
				sc.vals = append(sc.vals, sel(e.get(e.st, e.heapKey(ss, i)), tv.S))
			}
		} else {
			sc.vals = append(sc.vals, sel(e.get(e.st, e.memKey(e.sortOf(t))), tv.S))
		}
		out = append(out, sc)
	}
	return out
}

type savedCell struct {
	ref  string
	t    types.Type
	vals []string
	skip map[int]bool
}

// cellPassedToUnknown: is the cell handed to a call whose effect on it is not described by a modifies clause?
func (e *Enc) cellPassedToUnknown(v ssa.Value, blocks map[*ssa.BasicBlock]bool) bool {
	refs := v.Referrers()
	if refs == nil {
		return false
	}
	for _, r := range *refs {
		if blocks != nil && !blocks[r.Block()] {
			continue
		}
		c, ok := r.(*ssa.Call)
		if !ok {
			continue
		}
		keys, _ := e.calleeKeys(c.Common())
		known := false
		for _, k := range keys {
			if ct := e.w.cs.Funcs[k]; ct != nil && ct.HasMod {
				known = true
			}
		}
		if !known {
			return true
		}
	}
	return false
}

func (e *Enc) restoreCells(saved []savedCell) {
	for _, sc := range saved {
		if _, isS := sc.t.Underlying().(*types.Struct); isS {
			ss := e.sortOf(sc.t)
			for i, v := range sc.vals {
				if sc.skip[i] {
					continue
				}
				k := e.heapKey(ss, i)
				e.st.m[k] = e.nameTerm(k, store(e.get(e.st, k), sc.ref, v))
			}
		} else {
			if sc.skip[0] {
				continue
			}
			k := e.memKey(e.sortOf(sc.t))
			e.st.m[k] = e.nameTerm(k, store(e.get(e.st, k), sc.ref, sc.vals[0]))
		}
	}
}

func (e *Enc) nameTerm(key, term string) string {
	c := e.fresh("s_"+key, e.compKeySort(key))
	e.assert(eq(c, term))
	return c
}

func (e *Enc) edgeTerm(p, b *ssa.BasicBlock) string {
	return e.edgeCond[[2]int{p.Index, b.Index}]
}

// encode runs one pass over the function.
func (e *Enc) encode() {
	fn := e.fn
	e.st = &State{epoch: 0, m: map[string]string{}}
	e.curBlock = nil
	e.ptrNonNil = map[string]bool{}
	// parameters
	for _, p := range fn.Params {
		s := e.sortOf(p.Type())
		c := e.fresh("p_"+p.Name(), s)
		e.vals[p] = TV{c, s, p.Type()}
		e.typeFacts(c, p.Type())
		e.entryVars[p.Name()] = e.vals[p]
		e.inputs = append(e.inputs, c)
		e.refBound(c, p.Type(), e.st)
	}
	for _, p := range fn.FreeVars {
		s := e.sortOf(p.Type())
		c := e.fresh("fv_"+p.Name(), s)
		e.vals[p] = TV{c, s, p.Type()}
		e.entryVars[p.Name()] = e.vals[p]
		e.refBound(c, p.Type(), e.st)
		e.assert(fmt.Sprintf("(> %s 0)", c))
		e.ptrNonNil[c] = true
	}
	e.get(e.st, e.allocKey())
	e.entry = e.st.clone()
	// default preconditions: receivers and pointer parameters are non-nil
	for i, p := range fn.Params {
		if _, isPtr := p.Type().Underlying().(*types.Pointer); isPtr {
			if e.ctr != nil && e.nilable(p.Name()) {
				continue
			}
			_ = i
			e.assert(fmt.Sprintf("(not (= %s 0))", e.vals[p].S))
			e.ptrNonNil[e.vals[p].S] = true
		}
	}
	e.assumeRequires()

	for _, b := range e.rpo {
		e.curBlock = b
		e.enterBlock(b)
		for _, in := range b.Instrs {
			e.instr(in)
		}
		e.stOut[b] = e.st
	}
	e.curBlock = nil
	if e.pass != 1 {
		e.finishPosts()
		e.missingAsserts()
		e.orderObligations()
	}
	// back-edge obligations are generated when the tail block finishes (in finishBlock via terminator)
}

func (e *Enc) nilable(name string) bool {
	if e.ctr == nil {
		return false
	}
	for _, r := range e.ctr.Requires {
		if r.Label == "nilable."+name {
			return true
		}
	}
	return false
}

// refBound: references existing at some state are allocated (<= alloc).
func (e *Enc) refBound(c string, t types.Type, st *State) {
	a := e.get(st, e.allocKey())
	switch t.Underlying().(type) {
	case *types.Pointer, *types.Map:
		e.fact(fmt.Sprintf("(<= %s %s)", c, a))
	case *types.Slice:
		e.fact(fmt.Sprintf("(<= (sbase %s) %s)", c, a))
	case *types.Interface:
		e.fact(fmt.Sprintf("(=> ((_ is VRef) %s) (<= (vid %s) %s))", c, c, a))
	case *types.Struct:
		// by-value struct: bound the references held in its fields (one level)
		u := t.Underlying().(*types.Struct)
		info := e.w.so.structInfo[e.sortOf(t)]
		if info == nil {
			return
		}
		for i := 0; i < u.NumFields() && i < len(info.Fields); i++ {
			ft := u.Field(i).Type()
			switch ft.Underlying().(type) {
			case *types.Pointer, *types.Map, *types.Slice, *types.Interface:
				e.refBound(fmt.Sprintf("(%s %s)", info.Fields[i], c), ft, st)
				if _, isSl := ft.Underlying().(*types.Slice); isSl {
					f := fmt.Sprintf("(%s %s)", info.Fields[i], c)
					e.fact(fmt.Sprintf("(and (>= (slen %s) 0) (>= (sbase %s) 0) (=> (= (sbase %s) 0) (= (slen %s) 0)))", f, f, f, f))
				}
			}
		}
	}
}

func (e *Enc) enterBlock(b *ssa.BasicBlock) {
	name := e.fresh(fmt.Sprintf("at_b%d", b.Index), sBool)
	e.at[b] = name
	if b.Index == 0 {
		if e.inlined {
			e.assert(eq(name, e.inlineGuard))
			return
		}
		e.assert(name)
		return
	}
	li := e.loops[b]
	var edges []string
	var preds []*ssa.BasicBlock
	seenPred := map[int]bool{}
	for _, p := range b.Preds {
		if e.backEdge[[2]int{p.Index, b.Index}] {
			continue
		}
		if _, done := e.stOut[p]; !done {
			continue // unreachable predecessor
		}
		if seenPred[p.Index] {
			continue
		}
		seenPred[p.Index] = true
		preds = append(preds, p)
		edges = append(edges, e.edgeTerm(p, b))
	}
	if len(edges) == 0 {
		e.assert(not(name))
	} else {
		e.assert(eq(name, or(edges...)))
	}
	// merge states
	ns := e.mergeStates(preds, b)
	e.st = ns
	if li != nil {
		// loop header: entry obligations first (state = merged entry state), then havoc, then assume invariants
		e.loopEntryObligations(li, preds)
		e.havocLoop(li)
	}
}

func (e *Enc) mergeStates(preds []*ssa.BasicBlock, b *ssa.BasicBlock) *State {
	if len(preds) == 0 {
		return &State{epoch: e.newEpoch(), m: map[string]string{}}
	}
	if len(preds) == 1 {
		return e.stOut[preds[0]].clone()
	}
	sameEpoch := true
	for _, p := range preds[1:] {
		if e.stOut[p].epoch != e.stOut[preds[0]].epoch {
			sameEpoch = false
		}
	}
	ns := &State{m: map[string]string{}}
	if sameEpoch {
		ns.epoch = e.stOut[preds[0]].epoch
	} else {
		ns.epoch = e.newEpoch()
	}
	keys := map[string]bool{}
	for _, p := range preds {
		for k := range e.stOut[p].m {
			keys[k] = true
		}
	}
	if !sameEpoch {
		// every registered component may differ
		for k := range e.compSort {
			if !strings.HasPrefix(k, "L|") && !strings.HasPrefix(k, "It|") {
				keys[k] = true
			}
		}
	}
	for _, k := range sortedKeys(keys) {
		var terms []string
		same := true
		for _, p := range preds {
			t := e.get(e.stOut[p], k)
			terms = append(terms, t)
			if t != terms[0] {
				same = false
			}
		}
		if same {
			ns.m[k] = terms[0]
			continue
		}
		c := e.fresh("m_"+k, e.compKeySort(k))
		for i, p := range preds {
			e.assert(imp(e.edgeTerm(p, b), eq(c, terms[i])))
		}
		ns.m[k] = c
	}
	if !sameEpoch {
		// the epoch's own allocation counter (used by closure axioms of lazily created components)
		an := fmt.Sprintf("alloc__e%d", ns.epoch)
		if _, ok := e.declared[an]; !ok {
			e.decls = append(e.decls, fmt.Sprintf("(declare-const %s Int)", an))
			e.declared[an] = sInt
		}
		if a, ok := ns.m["alloc"]; ok {
			e.assert(eq(an, a))
		}
	}
	return ns
}

// havocLoop replaces loop-modified state by fresh constants at the header and assumes the invariants.
func (e *Enc) havocLoop(li *loopInfo) {
	if e.pass == 1 || li.all {
		oldAlloc := e.get(e.st, e.allocKey())
		old := e.st
		ns := &State{epoch: e.newEpoch(), m: map[string]string{}}
		for k, v := range old.m {
			if strings.HasPrefix(k, "L|") || strings.HasPrefix(k, "It|") {
				if e.pass == 1 || li.mods[k] {
					ns.m[k] = e.fresh("lh_"+k, e.compKeySort(k))
				} else {
					ns.m[k] = v
				}
			}
		}
		// writer ghosts survive a havoc-all loop unless the loop passes a writer to some call
		for _, k := range writerGhosts {
			if v, ok := old.m[k]; ok && e.pass != 1 && !li.mods[k] {
				ns.m[k] = v
			} else if _, known := e.compSort[k]; known && e.pass != 1 && !li.mods[k] {
				ns.m[k] = e.get(old, k)
			}
		}
		var cells []savedCell
		if e.pass != 1 {
			e.st = old
			cells = e.saveCells(func(v ssa.Value) bool { return e.cellPassedToUnknown(v, li.body) })
			// fields written inside the loop (by stores or by contracted callees) are not restored
			for ci := range cells {
				cells[ci].skip = map[int]bool{}
				if _, isS := cells[ci].t.Underlying().(*types.Struct); isS {
					ss := e.sortOf(cells[ci].t)
					for i := range cells[ci].vals {
						if li.mods[e.heapKey(ss, i)] {
							cells[ci].skip[i] = true
						}
					}
				} else if li.mods[e.memKey(e.sortOf(cells[ci].t))] {
					cells[ci].skip[0] = true
				}
			}
		}
		e.st = ns
		na := e.get(ns, e.allocKey())
		e.assert(fmt.Sprintf("(>= %s %s)", na, oldAlloc))
		e.restoreCells(cells)
	} else {
		oldAlloc := e.get(e.st, e.allocKey())
		pre := map[string]string{}
		preT := map[string]string{}
		for _, k := range sortedKeys(li.mods) {
			if _, known := e.compSort[k]; !known {
				continue
			}
			if !li.genMods[k] && k != "alloc" && (strings.HasPrefix(k, "H|") || strings.HasPrefix(k, "Arr|") || strings.HasPrefix(k, "Map|") || strings.HasPrefix(k, "Mem|")) {
				pre[k] = e.get(e.st, k)
			}
			if _, ok := li.targets[k]; ok && li.genMods[k] {
				preT[k] = e.get(e.st, k)
			}
			e.st.m[k] = e.fresh("lh_"+k, e.compKeySort(k))
		}
		// loop frame: a component that the loop only touches at objects it allocates keeps everything allocated before the loop
		for _, k := range sortedKeys(pre) {
			e.assert(fmt.Sprintf("(forall ((x Int)) (! (=> (<= x %s) (= (select %s x) (select %s x))) :pattern ((select %s x))))", oldAlloc, e.st.m[k], pre[k], e.st.m[k]))
		}
		// loop frame (2): all other writes of the loop go to a few loop-invariant objects; everything else allocated before is unchanged
		for _, k := range sortedKeys(preT) {
			var ne []string
			for _, v := range li.targets[k] {
				ne = append(ne, not(eq("x", e.val(v).S)))
			}
			e.assert(fmt.Sprintf("(forall ((x Int)) (! (=> (and (<= x %s) %s) (= (select %s x) (select %s x))) :pattern ((select %s x))))", oldAlloc, and(ne...), e.st.m[k], preT[k], e.st.m[k]))
		}
		for _, k := range sortedKeys(li.mods) {
			if e.refComp[k] {
				if _, known := e.compSort[k]; known {
					e.closure(k, e.st.m[k], e.get(e.st, e.allocKey()))
				}
			}
		}
		if li.mods["alloc"] {
			e.assert(fmt.Sprintf("(>= %s %s)", e.get(e.st, e.allocKey()), oldAlloc))
		}
	}
	// phis get fresh constants
	for _, in := range li.header.Instrs {
		phi, ok := in.(*ssa.Phi)
		if !ok {
			break
		}
		c := e.havocVal(phi)
		e.refBound(c, phi.Type(), e.st)
	}
	if li.spec != nil {
		env := e.loopEnv(li, nil)
		for _, u := range li.spec.Uses {
			e.useLemma(u, env)
		}
		for _, inv := range li.spec.Invs {
			t, err := e.evalBool(inv.E, env)
			if err != nil {
				e.contractError(fmt.Sprintf("loop%d:%s", li.ordinal, inv.Label), err)
				continue
			}
			e.assume(t)
		}
		if li.spec.Decreases != nil {
			t, err := e.evalExpr(li.spec.Decreases.E, env)
			if err == nil {
				li.decVal = t.S
			} else {
				e.contractError(fmt.Sprintf("loop%d:decreases", li.ordinal), err)
			}
		}
	}
}

func (e *Enc) loopEntryObligations(li *loopInfo, preds []*ssa.BasicBlock) {
	if li.spec == nil || e.pass == 1 {
		return
	}
	for _, p := range preds {
		env := e.loopEnv(li, p)
		env.st = e.stOut[p]
		guard := e.edgeTerm(p, li.header)
		var extra []string
		for _, u := range li.spec.Uses {
			if f, err := e.lemmaInstance(u, env); err == nil {
				extra = append(extra, f)
			}
		}
		for _, inv := range li.spec.Invs {
			t, err := e.evalBool(inv.E, env)
			name := fmt.Sprintf("loop%d:inv-init:%s", li.ordinal, inv.Label)
			if err != nil {
				e.contractError(name, err)
				continue
			}
			o := e.addObl("inv-init", name, inv.Label, guard, t)
			o.Extra = extra
		}
	}
}

func (e *Enc) loopBackObligations(li *loopInfo, tail *ssa.BasicBlock) {
	if li.spec == nil || e.pass == 1 {
		return
	}
	env := e.loopEnv(li, tail)
	env.st = e.st
	guard := e.edgeTerm(tail, li.header)
	var extra []string
	for _, u := range li.spec.Uses {
		if f, err := e.lemmaInstance(u, env); err == nil {
			extra = append(extra, f)
		}
	}
	for _, inv := range li.spec.Invs {
		t, err := e.evalBool(inv.E, env)
		name := fmt.Sprintf("loop%d:inv-keep:%s", li.ordinal, inv.Label)
		if err != nil {
			e.contractError(name, err)
			continue
		}
		o := e.addObl("inv-keep", name, inv.Label, guard, t)
		o.Extra = extra
	}
	if li.spec.Decreases != nil && li.decVal != "" {
		t, err := e.evalExpr(li.spec.Decreases.E, env)
		name := fmt.Sprintf("loop%d:decreases", li.ordinal)
		if err != nil {
			e.contractError(name, err)
		} else {
			lab := li.spec.Decreases.Label
			o := e.addObl("decreases", name, lab, guard, fmt.Sprintf("(and (>= %s 0) (< %s %s))", li.decVal, t.S, li.decVal))
			o.Extra = extra
		}
	}
}

func (e *Enc) contractError(where string, err error) {
	o := &Obl{Fn: e.key, Name: e.key + "#contract-error:" + where, Kind: "contract-error", Goal: "false", Guard: "true", enc: e, NAssert: 0}
	o.Label = err.Error()
	if e.pass != 1 {
		e.obls = append(e.obls, o)
	}
}

func (e *Enc) addObl(kind, name, label, guard, goal string) *Obl {
	full := e.key + "#" + name
	o := &Obl{Fn: e.key, Name: full, Kind: kind, Label: label, NAssert: len(e.asserts), Guard: guard, Goal: goal, enc: e, Inputs: e.inputs}
	if e.pass != 1 {
		e.obls = append(e.obls, o)
	}
	return o
}

// panicObl adds a panic-freedom obligation at the current point and then assumes the condition.
func (e *Enc) panicObl(kind string, in ssa.Instruction, cond string) {
	if cond == "true" {
		return
	}
	if !e.noPanics {
		txt := e.w.exprTextAt(e.fn, in.Pos())
		base := fmt.Sprintf("panic:%s:%s", kind, txt)
		e.panicOrd[base]++
		name := base
		if e.panicOrd[base] > 1 {
			name = fmt.Sprintf("%s#%d", base, e.panicOrd[base])
		}
		o := e.addObl("panic", name, "", e.at[e.curBlock], cond)
		o.Pos = e.w.fset.Position(in.Pos())
	}
	e.assume(cond)
}
