package main

import (
	"os"
	"fmt"
	"go/token"
	"go/types"
	"strconv"
	"strings"

	"golang.org/x/tools/go/ssa"
)

type modTarget struct {
	key string // component key, or prefix ending in "|" for all fields of a struct
	idx string // index term; "" = whole component
}

func shortKey(key string) string {
	if i := strings.Index(key, "::"); i >= 0 {
		p := key[:i]
		if j := strings.LastIndex(p, "/"); j >= 0 {
			p = p[j+1:]
		}
		if p == "vuego" {
			return key[i+2:]
		}
		return p + "." + key[i+2:]
	}
	return key
}

func (e *Enc) calleeKeys(c *ssa.CallCommon) ([]string, *ssa.Function) {
	if c.IsInvoke() {
		var keys []string
		add := func(t types.Type) {
			if n, ok := types.Unalias(t).(*types.Named); ok {
				pk := ""
				if n.Obj().Pkg() != nil {
					pk = n.Obj().Pkg().Path()
				}
				keys = append(keys, pk+"::("+n.Obj().Name()+")."+c.Method.Name())
			}
		}
		add(c.Value.Type())
		if sig, ok := c.Method.Type().(*types.Signature); ok && sig.Recv() != nil {
			add(sig.Recv().Type())
		}
		if len(keys) == 0 {
			keys = append(keys, "?::(interface)."+c.Method.Name())
		}
		return keys, nil
	}
	if fn := c.StaticCallee(); fn != nil {
		return []string{fnKey(fn)}, fn
	}
	return nil, nil
}

func (e *Enc) call(v ssa.Value, c *ssa.CallCommon, in ssa.Instruction) {
	if b, ok := c.Value.(*ssa.Builtin); ok {
		e.builtin(v, b, c, in)
		return
	}
	if e.sortSliceCall(c, in) {
		return
	}
	var args []TV
	if c.IsInvoke() {
		rv := e.val(c.Value)
		args = append(args, rv)
		if !e.noPanics {
			e.panicObl("nil-iface", in, not(eq(rv.S, "VNil")))
		} else {
			e.assume(not(eq(rv.S, "VNil")))
		}
	}
	for _, a := range c.Args {
		if pl, isPlace := e.places[a]; isPlace {
			// interior pointer passed to a callee: allocate nothing; pass an opaque ref and remember to havoc its root
			_ = pl
		}
		args = append(args, e.val(a))
	}
	e.applyCall(v, c, args, in, e.at[e.curBlock])
}

func (e *Enc) applyCall(v ssa.Value, c *ssa.CallCommon, args []TV, in ssa.Instruction, guard string) {
	keys, fn := e.calleeKeys(c)
	var ctr *FuncContract
	key := ""
	for _, k := range keys {
		if key == "" {
			key = k
		}
		if ct := e.w.cs.Funcs[k]; ct != nil {
			ctr, key = ct, k
			break
		}
	}
	// interior pointers passed as arguments: the callee may write through them
	for _, a := range c.Args {
		if pl, isPlace := e.places[a]; isPlace {
			if _, isPtr := a.Type().Underlying().(*types.Pointer); isPtr && pl.Kind != pLocal {
				if ctr == nil || !ctr.Pure {
					e.flag("interior-pointer-argument")
					e.placeStore(pl, e.fresh("viaptr", e.sortOf(pl.T)))
				}
			}
		}
	}
	short := shortKey(key)
	if key == "" {
		short = "dynamic"
	}
	e.callOrd[short]++
	ord := e.callOrd[short]
	site := short
	if ord > 1 {
		site = fmt.Sprintf("%s@%d", short, ord)
	}
	// default precondition of repository functions: pointer arguments are non-nil
	if fn != nil && fn.Pkg != nil && e.w.isRepoPkg(fn.Pkg.Pkg.Path()) {
		for i, p := range fn.Params {
			if i >= len(args) {
				break
			}
			if _, isPtr := p.Type().Underlying().(*types.Pointer); isPtr && !e.ptrNonNil[args[i].S] {
				if ctr != nil && ctrNilable(ctr, p.Name()) {
					continue
				}
				if !e.noPanics {
					o := e.addObl("call-pre", fmt.Sprintf("call-pre:%s:nonnil.%s", site, p.Name()), "nonnil."+p.Name(), guard, not(eq(args[i].S, "0")))
					o.Pos = e.w.fset.Position(in.Pos())
				}
				// checked (or, with -nopanics, assumed): the argument is non-nil from here on
				e.assert(imp(guard, not(eq(args[i].S, "0"))))
				e.ptrNonNil[args[i].S] = true
			}
		}
	}
	if ctr == nil {
		pure := false
		if fn == nil || fn.Pkg == nil || !e.w.isRepoPkg(fn.Pkg.Pkg.Path()) {
			pure = key != "" && e.w.isPureExternal(key)
		} else if e.w.inferredPure[key] {
			if os.Getenv("GOVC_NOINLINE") == "" && e.inlineCall(v, fn, args, guard) {
				return
			}
			pure = true
			e.inferredUsed[key] = true
		} else if os.Getenv("GOVC_NOINLINE") == "" && e.w.inlinableImpure(fn) && e.inlineCall(v, fn, args, guard) {
			// a small helper with side effects (an extracted block of statements): encoded from its body
			return
		}
		if !pure {
			if key == "" {
				e.unmodelled["dynamic-call"] = true
			} else {
				e.unmodelled[key] = true
			}
			e.frameCheckCallAll(site, in, guard)
			e.havocAllArgs(args)
		}
		if v != nil {
			e.havocVal(v)
			e.resultBounds(v)
		}
		return
	}
	// ---- contract application ----
	env := e.newEnv(ctr.Pkg)
	names := ctr.Params
	if ctr.RecvName != "" && (fn == nil || fn.Signature.Recv() != nil || c.IsInvoke()) {
		names = append([]string{ctr.RecvName}, names...)
	}
	for i, n := range names {
		if i < len(args) {
			env.vars[n] = args[i]
		}
	}
	if fn != nil {
		for i, fv := range fn.FreeVars {
			if mc, ok := c.Value.(*ssa.MakeClosure); ok && i < len(mc.Bindings) {
				env.vars["&"+fv.Name()] = e.val(mc.Bindings[i])
			}
		}
	}
	env.st = e.st
	env.old = e.st
	env.callerEntry = e.entry
	for _, r := range ctr.Requires {
		if strings.HasPrefix(r.Label, "nilable.") {
			continue
		}
		t, err := e.evalBool(r.E, env)
		name := fmt.Sprintf("call-pre:%s:%s", site, r.Label)
		if err != nil {
			e.contractError(name, err)
			continue
		}
		o := e.addObl("call-pre", name, r.Label, guard, t)
		o.Pos = e.w.fset.Position(in.Pos())
		e.assert(imp(guard, t))
	}
	// object invariants of the callee's receiver type
	if fn != nil && len(args) > 0 {
		sameType := false
		if e.fn != nil && e.fn.Signature.Recv() != nil && fn.Signature.Recv() != nil && types.Identical(e.fn.Signature.Recv().Type(), fn.Signature.Recv().Type()) {
			sameType = true
		}
		if sameType && e.writesRecvFields() {
			for _, iv := range e.typeInvsFor(fn) {
				ienv := e.newEnv(iv.Pkg)
				ienv.st, ienv.old = e.st, e.st
				ienv.vars[iv.RecvName] = args[0]
				t, err := e.evalBool(iv.Clause.E, ienv)
				if err != nil {
					continue
				}
				o := e.addObl("call-pre", fmt.Sprintf("call-pre:%s:inv.%s", site, iv.Clause.Label), iv.Clause.Label, guard, t)
				o.Pos = e.w.fset.Position(in.Pos())
			}
		}
	}
	// recursion: decreases
	if len(ctr.Decreases) > 0 && e.ctr != nil && len(e.ctr.Decreases) > 0 && e.sameRecursionGroup(key) {
		e.decreasesObl(ctr, env, site, guard, in)
	}
	pre := e.st.clone()
	if !ctr.HasMod {
		e.frameCheckCallAll(site, in, guard)
		e.havocAllArgs(args)
	} else {
		// all targets denote locations of the pre-state: evaluate them before anything is havocked
		var targets []modTarget
		for _, m := range ctr.Modifies {
			tg, err := e.modTargets(m, env)
			if err != nil {
				e.contractError("modifies:"+site, err)
				continue
			}
			targets = append(targets, tg...)
		}
		for _, t := range targets {
			e.frameCheckTarget(site, t, in, guard)
		}
		// the callee may allocate: bump the allocation counter first, so that the havocked locations are bounded by
		// the counter *after* the call (they may hold objects the callee allocated)
		if !ctr.Pure {
			oa := e.get(e.st, e.allocKey())
			na := e.fresh("alloc", sInt)
			e.assert(fmt.Sprintf("(>= %s %s)", na, oa))
			e.set(e.allocKey(), na)
		}
		for _, t := range targets {
			e.havocTarget(t)
		}
	}
	// results
	post := e.newEnv(ctr.Pkg)
	for k, tv := range env.vars {
		post.vars[k] = tv
	}
	post.st = e.st
	post.old = pre
	post.oldVars = env.vars
	if v != nil {
		e.havocVal(v)
		e.resultBounds(v)
		if tv, ok := e.tuples[v]; ok {
			for i, n := range ctr.Results {
				if i < len(tv) {
					post.vars[n] = tv[i]
				}
			}
		} else if len(ctr.Results) > 0 {
			if rv, ok := e.vals[v]; ok {
				post.vars[ctr.Results[0]] = rv
			}
		}
	} else {
		// deferred / discarded results: fresh unknowns for named results
		if fn != nil {
			res := fn.Signature.Results()
			for i, n := range ctr.Results {
				if i < res.Len() {
					s := e.sortOf(res.At(i).Type())
					post.vars[n] = TV{e.fresh("dres", s), s, res.At(i).Type()}
				}
			}
		}
	}
	if fn != nil && len(args) > 0 {
		for _, iv := range e.typeInvsFor(fn) {
			ienv := e.newEnv(iv.Pkg)
			ienv.st, ienv.old = e.st, pre
			ienv.vars[iv.RecvName] = args[0]
			if t, err := e.evalBool(iv.Clause.E, ienv); err == nil {
				e.assert(imp(guard, t))
			}
		}
	}
	for _, en := range ctr.Ensures {
		t, err := e.evalBool(en.E, post)
		if err != nil {
			e.contractError(fmt.Sprintf("call-post:%s:%s", site, en.Label), err)
			continue
		}
		e.assert(imp(guard, t))
	}
}

func ctrNilable(c *FuncContract, name string) bool {
	for _, r := range c.Requires {
		if r.Label == "nilable."+name {
			return true
		}
	}
	return false
}

func (e *Enc) resultBounds(v ssa.Value) {
	if tv, ok := e.tuples[v]; ok {
		for _, t := range tv {
			e.refBound(t.S, t.T, e.st)
		}
		return
	}
	if tv, ok := e.vals[v]; ok {
		e.refBound(tv.S, tv.T, e.st)
	}
}

func (e *Enc) sameRecursionGroup(calleeKey string) bool {
	// conservative: any callee that itself declares a decreases clause is treated as possibly recursive with us
	return true
}

func (e *Enc) decreasesObl(callee *FuncContract, env *Env, site, guard string, in ssa.Instruction) {
	// lexicographic comparison of callee measure (at args) with own measure (at entry)
	own := e.entryEnv()
	var a, b []string
	for _, d := range e.ctr.Decreases {
		t, err := e.evalExpr(d, own)
		if err != nil {
			e.contractError("decreases:self", err)
			return
		}
		a = append(a, t.S)
	}
	for _, d := range callee.Decreases {
		t, err := e.evalExpr(d, env)
		if err != nil {
			e.contractError("decreases:"+site, err)
			return
		}
		b = append(b, t.S)
	}
	n := len(a)
	if len(b) < n {
		n = len(b)
	}
	var disj []string
	prefixEq := "true"
	for i := 0; i < n; i++ {
		disj = append(disj, and(prefixEq, fmt.Sprintf("(< %s %s)", b[i], a[i]), fmt.Sprintf("(>= %s 0)", a[i])))
		prefixEq = and(prefixEq, eq(a[i], b[i]))
	}
	o := e.addObl("decreases", "decreases:"+site, "", guard, or(disj...))
	o.Pos = e.w.fset.Position(in.Pos())
}

// ---------- modifies targets ----------

func (e *Enc) ghostKey(g *GhostDecl) string {
	ret, err := e.w.evalType(g.Pkg, g.Ret)
	rs := sInt
	if err == nil {
		rs = e.sortOf(ret)
	}
	if g.Ret == "set[string]" {
		rs = "(Array String Bool)"
	}
	sortText := rs
	for i := len(g.Params) - 1; i >= 0; i-- {
		pt, err := e.w.evalType(g.Pkg, g.Params[i].Type)
		ps := sInt
		if err == nil {
			ps = e.sortOf(pt)
		}
		sortText = "(Array " + ps + " " + sortText + ")"
	}
	return e.regComp("G|"+g.Name, sortText)
}

func (e *Enc) modTargets(m Expr, env *Env) ([]modTarget, error) {
	switch x := m.(type) {
	case *CallE:
		if ms := e.w.cs.ModSets[x.Fun]; ms != nil {
			if len(ms.Params) != len(x.Args) {
				return nil, fmt.Errorf("modset %s: wrong argument count", x.Fun)
			}
			c := env.child()
			for i, p := range ms.Params {
				a, err := e.evalExpr(x.Args[i], env)
				if err != nil {
					return nil, err
				}
				c.vars[p] = a
			}
			var out []modTarget
			for _, t := range ms.Targets {
				tg, err := e.modTargets(t, c)
				if err != nil {
					return nil, err
				}
				out = append(out, tg...)
			}
			return out, nil
		}
		if x.Fun == "built" && len(x.Args) == 1 {
			if g := e.w.cs.Ghosts["out"]; g != nil {
				a, err := e.evalExpr(x.Args[0], env)
				if err != nil {
					return nil, err
				}
				if a.T == nil {
					return nil, fmt.Errorf("built() needs a typed pointer")
				}
				return []modTarget{{e.ghostKey(g), e.box(a, a.T)}}, nil
			}
		}
		if g := e.w.cs.Ghosts[x.Fun]; g != nil {
			k := e.ghostKey(g)
			if len(x.Args) == 0 {
				return []modTarget{{k, ""}}, nil
			}
			a, err := e.evalExpr(x.Args[0], env)
			if err != nil {
				return nil, err
			}
			return []modTarget{{k, a.S}}, nil
		}
		switch x.Fun {
		case "allof":
			if id, ok := x.Args[0].(*Ident); ok {
				if g := e.w.cs.Ghosts[id.Name]; g != nil {
					return []modTarget{{e.ghostKey(g), ""}}, nil
				}
			}
			return nil, fmt.Errorf("allof: unknown ghost")
		case "contents":
			a, err := e.evalExpr(x.Args[0], env)
			if err != nil {
				return nil, err
			}
			mt, ok := a.T.Underlying().(*types.Map)
			if !ok {
				return nil, fmt.Errorf("contents: not a map")
			}
			return []modTarget{{e.mapKeyT(mt), a.S}}, nil
		case "elems":
			a, err := e.evalExpr(x.Args[0], env)
			if err != nil {
				return nil, err
			}
			stt, ok := a.T.Underlying().(*types.Slice)
			if !ok {
				return nil, fmt.Errorf("elems: not a slice")
			}
			return []modTarget{{e.arrKeyT(stt.Elem()), "(sbase " + a.S + ")"}}, nil
		case "fields":
			a, err := e.evalExpr(x.Args[0], env)
			if err != nil {
				return nil, err
			}
			t := deref(a.T)
			if !isStruct(t) {
				return nil, fmt.Errorf("fields: not a struct pointer")
			}
			ss := e.sortOf(t)
			var out []modTarget
			for i := range e.w.so.structInfo[ss].Fields {
				out = append(out, modTarget{e.heapKey(ss, i), a.S})
			}
			return out, nil
		case "everyField": // everyField("pkg.T", "f"): field f of every object of struct type T (whole heap component)
			if len(x.Args) != 2 {
				return nil, fmt.Errorf("everyField(type, field)")
			}
			tl, ok1 := x.Args[0].(*StrLit)
			fl, ok2 := x.Args[1].(*StrLit)
			if !ok1 || !ok2 {
				return nil, fmt.Errorf("everyField needs two string literals")
			}
			t, err := e.w.evalType(env.pkg, tl.V)
			if err != nil {
				return nil, err
			}
			st, ok := t.Underlying().(*types.Struct)
			if !ok {
				return nil, fmt.Errorf("everyField: %s is not a struct type", tl.V)
			}
			for i := 0; i < st.NumFields(); i++ {
				if st.Field(i).Name() == fl.V {
					return []modTarget{{e.heapKey(e.sortOf(t), i), ""}}, nil
				}
			}
			return nil, fmt.Errorf("everyField: no field %s", fl.V)
		case "everyElem": // everyElem("pkg.T"): the elements of every slice of T (whole backing-store component)
			tl, ok := x.Args[0].(*StrLit)
			if !ok {
				return nil, fmt.Errorf("everyElem needs a string literal")
			}
			t, err := e.w.evalType(env.pkg, tl.V)
			if err != nil {
				return nil, err
			}
			return []modTarget{{e.arrKeyT(t), ""}}, nil
		case "deref":
			a, err := e.evalExpr(x.Args[0], env)
			if err != nil {
				return nil, err
			}
			return []modTarget{{e.memKey(e.sortOf(deref(a.T))), a.S}}, nil
		}
		return nil, fmt.Errorf("bad modifies target %s", exprString(m))
	case *SelE:
		a, err := e.evalExpr(x.X, env)
		if err != nil {
			return nil, err
		}
		t := deref(a.T)
		st, ok := t.Underlying().(*types.Struct)
		if !ok {
			return nil, fmt.Errorf("modifies %s: not a struct pointer", exprString(m))
		}
		for i := 0; i < st.NumFields(); i++ {
			if st.Field(i).Name() == x.Name {
				return []modTarget{{e.heapKey(e.sortOf(t), i), a.S}}, nil
			}
		}
		return nil, fmt.Errorf("modifies %s: no such field", exprString(m))
	}
	return nil, fmt.Errorf("bad modifies target %s", exprString(m))
}

func (e *Enc) havocTarget(t modTarget) {
	cs := e.compKeySort(t.key)
	if t.idx == "" {
		c := e.fresh("hv", cs)
		e.set(t.key, c)
		if e.refComp[t.key] {
			e.closure(t.key, c, e.get(e.st, e.allocKey()))
		}
		return
	}
	// element sort of (Array I V)
	inner := strings.TrimSuffix(strings.TrimPrefix(cs, "(Array "), ")")
	// split index sort and value sort
	vs := splitArraySort(inner)
	c := e.fresh("hv", vs)
	e.set(t.key, store(e.get(e.st, t.key), t.idx, c))
	if e.refComp[t.key] {
		e.closureElem(t.key, c, e.get(e.st, e.allocKey()))
	}
}

// splitArraySort takes "I V" (with possibly parenthesised sorts) and returns V.
func splitArraySort(s string) string {
	depth := 0
	for i := 0; i < len(s); i++ {
		switch s[i] {
		case '(':
			depth++
		case ')':
			depth--
		case ' ':
			if depth == 0 {
				return s[i+1:]
			}
		}
	}
	return s
}

// ownTargets evaluates the function's own modifies clause at entry.
func (e *Enc) ownTargets() []modTarget {
	var out []modTarget
	if e.ctr == nil {
		return nil
	}
	env := e.entryEnv()
	for _, m := range e.ctr.Modifies {
		tg, err := e.modTargets(m, env)
		if err != nil {
			e.contractError("modifies:self", err)
			continue
		}
		out = append(out, tg...)
	}
	return out
}

func (e *Enc) allowedByFrame(t modTarget) string {
	alloc0 := e.get(e.entry, e.allocKey())
	var ds []string
	if t.idx != "" && !strings.HasPrefix(t.key, "G|") {
		ds = append(ds, fmt.Sprintf("(> %s %s)", t.idx, alloc0))
	}

	if t.idx != "" && strings.HasPrefix(t.key, "G|") && strings.HasPrefix(e.compKeySort(t.key), "(Array Val ") {
		// ghost state of an object allocated during this call (e.g. a private buffer used as io.Writer)
		ds = append(ds, fmt.Sprintf("(and ((_ is VRef) %s) (> (vid %s) %s))", t.idx, t.idx, alloc0))
	}
	for _, o := range e.ownTargets() {
		if o.key != t.key {
			continue
		}
		if o.idx == "" {
			return "true"
		}
		if t.idx != "" {
			ds = append(ds, eq(o.idx, t.idx))
		}
	}
	return or(ds...)
}

func (e *Enc) frameCheckTarget(site string, t modTarget, in ssa.Instruction, guard string) {
	if e.ctr == nil || !e.ctr.HasMod || e.ctr.Trusted {
		return
	}
	o := e.addObl("frame", fmt.Sprintf("frame:call:%s:%s", site, strings.ReplaceAll(t.key, "|", ".")), "", guard, e.allowedByFrame(t))
	o.Pos = e.w.fset.Position(in.Pos())
}

func (e *Enc) frameCheckCallAll(site string, in ssa.Instruction, guard string) {
	if e.ctr == nil || !e.ctr.HasMod || e.ctr.Trusted {
		return
	}
	o := e.addObl("frame", fmt.Sprintf("frame:call:%s:everything", site), "", guard, "false")
	o.Pos = e.w.fset.Position(in.Pos())
}

func (e *Enc) frameCheckStore(p *Place, in ssa.Instruction) {
	if e.ctr == nil || !e.ctr.HasMod {
		return
	}
	var t modTarget
	switch p.Kind {
	case pHeap:
		ss := e.sortOf(p.RootT)
		if len(p.Path) > 0 && !p.Path[0].isIdx {
			t = modTarget{e.heapKey(ss, p.Path[0].field), p.Ref}
		} else {
			for i := range e.w.so.structInfo[ss].Fields {
				e.frameCheckTargetStore(modTarget{e.heapKey(ss, i), p.Ref}, in)
			}
			return
		}
	case pMem:
		t = modTarget{e.memKey(e.sortOf(p.RootT)), p.Ref}
	case pElem:
		t = modTarget{e.arrKeyT(p.RootT), p.Ref}
	default:
		return
	}
	e.frameCheckTargetStore(t, in)
}

func (e *Enc) frameCheckTargetStore(t modTarget, in ssa.Instruction) {
	txt := e.w.exprTextAt(e.fn, in.Pos())
	base := "frame:store:" + txt
	e.panicOrd[base]++
	if e.panicOrd[base] > 1 {
		base = fmt.Sprintf("%s#%d", base, e.panicOrd[base])
	}
	o := e.addObl("frame", base, "", e.at[e.curBlock], e.allowedByFrame(t))
	o.Pos = e.w.fset.Position(in.Pos())
}

func (e *Enc) frameCheckRef(kind, ref string, in ssa.Instruction) {
	if e.ctr == nil || !e.ctr.HasMod {
		return
	}
	if mu, ok := in.(*ssa.MapUpdate); ok {
		mt := mu.Map.Type().Underlying().(*types.Map)
		e.frameCheckTargetStore(modTarget{e.mapKeyT(mt), ref}, in)
	}
}

// guardOf: for a place that is a guarded field, the held-state term of its guard and the field's display name.
func (e *Enc) guardOf(p *Place) (string, string, bool) {
	if p.Kind != pHeap || len(p.Path) != 1 || p.Path[0].isIdx {
		return "", "", false
	}
	st, ok := p.RootT.Underlying().(*types.Struct)
	if !ok {
		return "", "", false
	}
	fname := st.Field(p.Path[0].field).Name()
	tname := ""
	if n, ok := p.RootT.(*types.Named); ok {
		tname = n.Obj().Name()
	}
	for _, sd := range e.w.cs.Shared {
		if sd.Kind != "guarded_by" {
			continue
		}
		parts := strings.SplitN(sd.Name, ".", 2)
		if len(parts) != 2 || parts[1] != fname {
			continue
		}
		if tname != "" && parts[0] != tname {
			continue
		}
		if tname == "" && e.globalNameOfRef(p.Ref) != parts[0] {
			continue
		}
		for i := 0; i < st.NumFields(); i++ {
			if st.Field(i).Name() == sd.Guard {
				g := e.w.cs.Ghosts["held"]
				if g == nil {
					return "", "", false
				}
				k := e.ghostKey(g)
				return sel(e.get(e.st, k), fmt.Sprintf("(fieldaddr %s %d)", p.Ref, i)), sd.Name, true
			}
		}
	}
	return "", "", false
}

// globalNameOfRef: if ref is the value loaded from a package-level pointer variable, its name.
func (e *Enc) globalNameOfRef(ref string) string {
	return e.globalLoads[ref]
}

func (e *Enc) lockCheckLoad(p *Place, in ssa.Instruction) {
	if e.noLocks {
		return
	}
	h, name, ok := e.guardOf(p)
	if !ok || e.pass == 1 {
		return
	}
	base := "lock:read:" + name
	e.panicOrd[base]++
	n := base
	if e.panicOrd[base] > 1 {
		n = fmt.Sprintf("%s#%d", base, e.panicOrd[base])
	}
	o := e.addObl("lock", n, "C09.guarded.read", e.at[e.curBlock], fmt.Sprintf("(>= %s 1)", h))
	o.Pos = e.w.fset.Position(in.Pos())
	// remember that this map value came from a guarded field (for writes through it)
	if v, isV := in.(ssa.Value); isV {
		e.guardedVals[v] = [2]string{fmt.Sprintf("(fieldaddr %s %d)", p.Ref, e.guardIdx(p)), name}
	}
}

func (e *Enc) guardIdx(p *Place) int {
	st := p.RootT.Underlying().(*types.Struct)
	fname := st.Field(p.Path[0].field).Name()
	for _, sd := range e.w.cs.Shared {
		parts := strings.SplitN(sd.Name, ".", 2)
		if sd.Kind == "guarded_by" && len(parts) == 2 && parts[1] == fname {
			for i := 0; i < st.NumFields(); i++ {
				if st.Field(i).Name() == sd.Guard {
					return i
				}
			}
		}
	}
	return 0
}

// lockCheckWrite: a map update/delete through a map loaded from a guarded field needs the write lock.
func (e *Enc) lockCheckWrite(m ssa.Value, in ssa.Instruction) {
	gv, ok := e.guardedVals[m]
	if !ok || e.pass == 1 || e.noLocks {
		return
	}
	g := e.w.cs.Ghosts["held"]
	if g == nil {
		return
	}
	h := sel(e.get(e.st, e.ghostKey(g)), gv[0])
	base := "lock:write:" + gv[1]
	e.panicOrd[base]++
	n := base
	if e.panicOrd[base] > 1 {
		n = fmt.Sprintf("%s#%d", base, e.panicOrd[base])
	}
	o := e.addObl("lock", n, "C09.guarded.write", e.at[e.curBlock], eq(h, "2"))
	o.Pos = e.w.fset.Position(in.Pos())
}

// ---------- deferred calls ----------

func (e *Enc) deferredCall(d deferRec) {
	pre := e.st.clone()
	c := d.call.Common()
	if _, isB := c.Value.(*ssa.Builtin); isB {
		return
	}
	args := d.args
	if c.IsInvoke() {
		args = append([]TV{e.val(c.Value)}, args...)
	}
	g := and(e.at[e.curBlock], d.guard)
	e.applyCall(nil, c, args, d.call, g)
	post := e.st
	// merge: the deferred call ran only if its defer statement was executed
	if d.guard == e.at[e.fn.Blocks[0]] {
		return
	}
	ns := &State{epoch: post.epoch, m: map[string]string{}}
	keys := map[string]bool{}
	for k := range post.m {
		keys[k] = true
	}
	for k := range pre.m {
		keys[k] = true
	}
	if pre.epoch != post.epoch {
		ns.epoch = e.newEpoch()
		for k := range e.compSort {
			if !strings.HasPrefix(k, "L|") && !strings.HasPrefix(k, "It|") {
				keys[k] = true
			}
		}
	}
	for _, k := range sortedKeys(keys) {
		a, b := e.get(post, k), e.get(pre, k)
		if a == b {
			ns.m[k] = a
			continue
		}
		cst := e.fresh("dm_"+k, e.compKeySort(k))
		e.assert(imp(d.guard, eq(cst, a)))
		e.assert(imp(not(d.guard), eq(cst, b)))
		ns.m[k] = cst
	}
	e.st = ns
}

// ---------- return ----------

type retSite struct {
	guard string
	env   *Env
}

func (e *Enc) ret(x *ssa.Return) {
	e.retGuards = append(e.retGuards, e.at[e.curBlock])
	if e.pass != 1 && e.writesRecvFields() {
		for _, iv := range e.typeInvsFor(e.fn) {
			env := e.entryEnv()
			env.st = e.st
			env.old = e.entry
			if len(e.fn.Params) > 0 {
				env.vars[iv.RecvName] = e.vals[e.fn.Params[0]]
			}
			t, err := e.evalBool(iv.Clause.E, env)
			if err != nil {
				e.contractError("invariant:"+iv.Clause.Label, err)
				continue
			}
			e.retCount["inv:"+iv.Clause.Label]++
			o := e.addObl("post", fmt.Sprintf("post:inv.%s@ret%d", iv.Clause.Label, e.retCount["inv:"+iv.Clause.Label]), iv.Clause.Label, e.at[e.curBlock], t)
			o.Pos = e.w.fset.Position(x.Pos())
		}
	}
	if e.ctr == nil || e.pass == 1 {
		return
	}
	if e.ctr.Unlocked {
		if g := e.w.cs.Ghosts["held"]; g != nil {
			k := e.ghostKey(g)
			e.retCount["lock.released"]++
			o := e.addObl("lock", fmt.Sprintf("lock:released@ret%d", e.retCount["lock.released"]), "C09.lock.released", e.at[e.curBlock], eq(e.get(e.st, k), "((as const (Array Int Int)) 0)"))
			o.Pos = e.w.fset.Position(x.Pos())
		}
	}
	env := e.entryEnv()
	env.st = e.st
	env.old = e.entry
	for i, n := range e.ctr.Results {
		if i < len(x.Results) {
			env.vars[n] = e.val(x.Results[i])
		}
	}
	guard := e.at[e.curBlock]
	var extra []string
	for _, u := range e.ctr.Uses {
		if f, err := e.lemmaInstance(u, env); err == nil {
			extra = append(extra, f)
		} else {
			e.contractError("use", err)
		}
	}
	for _, en := range e.ctr.Ensures {
		t, err := e.evalBool(en.E, env)
		name := "post:" + en.Label
		if err != nil {
			e.contractError(name, err)
			continue
		}
		e.retCount[en.Label]++
		o := e.addObl("post", fmt.Sprintf("post:%s@ret%d", en.Label, e.retCount[en.Label]), en.Label, guard, t)
		o.Extra = extra
		for _, rv := range x.Results {
			o.Results = append(o.Results, e.val(rv))
		}
		o.Pos = e.w.fset.Position(x.Pos())
	}
}

type retPost struct {
	label string
	goals []string
	extra []string
	pos   token.Pos
}

// finishPosts creates one obligation per postcondition label covering every return site.
func (e *Enc) finishPosts() {
	for _, lab := range e.retOrder {
		rp := e.retPosts[lab]
		o := e.addObl("post", "post:"+lab, lab, "true", and(rp.goals...))
		o.Extra = rp.extra
		o.Pos = e.w.fset.Position(rp.pos)
	}
}

func (e *Enc) assumeRequires() {
	for _, iv := range e.typeInvsFor(e.fn) {
		env := e.entryEnv()
		if len(e.fn.Params) > 0 {
			env.vars[iv.RecvName] = e.vals[e.fn.Params[0]]
		}
		t, err := e.evalBool(iv.Clause.E, env)
		if err != nil {
			e.contractError("invariant:"+iv.Clause.Label, err)
			continue
		}
		e.assert(t)
	}
	if e.ctr == nil {
		return
	}
	if e.ctr.Unlocked {
		if g := e.w.cs.Ghosts["held"]; g != nil {
			k := e.ghostKey(g)
			e.assert(eq(e.get(e.st, k), "((as const (Array Int Int)) 0)"))
		}
	}
	env := e.entryEnv()
	for _, h := range e.ctr.Holds {
		obj, err := e.evalExpr(h, env)
		if err != nil {
			e.contractError("holds", err)
			continue
		}
		tn := ""
		if p, ok := obj.T.(*types.Pointer); ok {
			if n, ok := p.Elem().(*types.Named); ok {
				tn = "*" + n.Obj().Name()
			}
		}
		for _, iv := range e.w.cs.Invs {
			if iv.Type != tn {
				continue
			}
			ienv := e.newEnv(iv.Pkg)
			ienv.st, ienv.old = e.entry, e.entry
			ienv.vars[iv.RecvName] = obj
			if t, err := e.evalBool(iv.Clause.E, ienv); err == nil {
				e.assert(imp(not(eq(obj.S, "0")), t))
			}
		}
	}
	for _, r := range e.ctr.Requires {
		if strings.HasPrefix(r.Label, "nilable.") {
			continue
		}
		t, err := e.evalBool(r.E, env)
		if err != nil {
			e.contractError("requires:"+r.Label, err)
			continue
		}
		e.assert(t)
	}
	for _, u := range e.ctr.Uses {
		e.useLemma(u, env)
	}
}

// ---------- builtins ----------

func (e *Enc) builtin(v ssa.Value, b *ssa.Builtin, c *ssa.CallCommon, in ssa.Instruction) {
	arg := func(i int) TV { return e.val(c.Args[i]) }
	switch b.Name() {
	case "len":
		a := arg(0)
		switch t := c.Args[0].Type().Underlying().(type) {
		case *types.Basic:
			e.setVal(v, "(str.len "+a.S+")")
		case *types.Slice:
			e.setVal(v, "(slen "+a.S+")")
		case *types.Map:
			contents := sel(e.get(e.st, e.mapKeyT(t)), a.S)
			cn := e.fresh("maplen", sInt)
			e.assert(fmt.Sprintf("(>= %s 0)", cn))
			e.assert(imp(eq(a.S, "0"), eq(cn, "0")))
			e.assert(imp(eq(contents, e.emptyMap(t)), eq(cn, "0")))
			// non-zero length means some key is present
			opt := e.w.so.optSort(e.sortOf(t.Elem()))
			wk := e.fresh("lenwit", e.sortOf(t.Key()))
			e.assert(imp(fmt.Sprintf("(> %s 0)", cn), fmt.Sprintf("((_ is Some_%s) (select %s %s))", opt, contents, wk)))
			e.assert(imp(eq(cn, "0"), fmt.Sprintf("(forall ((kk %s)) (not ((_ is Some_%s) (select %s kk))))", e.sortOf(t.Key()), opt, contents)))
			e.setVal(v, cn)
		case *types.Array:
			e.setVal(v, strconv.FormatInt(t.Len(), 10))
		case *types.Pointer:
			if at, ok := t.Elem().Underlying().(*types.Array); ok {
				e.setVal(v, strconv.FormatInt(at.Len(), 10))
			} else {
				e.havocVal(v)
			}
		default:
			e.havocVal(v)
		}
	case "cap":
		cn := e.havocVal(v)
		if arg(0).Sort == sSlice {
			e.assert(fmt.Sprintf("(>= %s (slen %s))", cn, arg(0).S))
		}
	case "append":
		e.appendBuiltin(v, c, in)
	case "delete":
		m := arg(0)
		mt := c.Args[0].Type().Underlying().(*types.Map)
		e.frameCheckRef("map", m.S, in)
		k := e.mapKeyT(mt)
		h := e.get(e.st, k)
		opt := e.w.so.optSort(e.sortOf(mt.Elem()))
		e.set(k, ite(eq(m.S, "0"), h, store(h, m.S, store(sel(h, m.S), arg(1).S, "None_"+opt))))
	case "copy":
		dst := arg(0)
		if st, ok := c.Args[0].Type().Underlying().(*types.Slice); ok {
			e.havocTarget(modTarget{e.arrKeyT(st.Elem()), "(sbase " + dst.S + ")"})
		}
		if v != nil {
			e.havocVal(v)
		}
	case "min", "max":
		if len(c.Args) == 2 && arg(0).Sort == sInt {
			op := "<="
			if b.Name() == "max" {
				op = ">="
			}
			e.setVal(v, fmt.Sprintf("(ite (%s %s %s) %s %s)", op, arg(0).S, arg(1).S, arg(0).S, arg(1).S))
		} else {
			e.havocVal(v)
		}
	case "clear":
		a := arg(0)
		if mt, ok := c.Args[0].Type().Underlying().(*types.Map); ok {
			k := e.mapKeyT(mt)
			e.set(k, store(e.get(e.st, k), a.S, e.emptyMap(mt)))
		} else {
			e.havocAll()
		}
	case "print", "println":
	case "panic":
		if !e.noPanics {
			o := e.addObl("panic", "panic:explicit:"+e.w.exprTextAt(e.fn, in.Pos()), "", e.at[e.curBlock], "false")
			o.Pos = e.w.fset.Position(in.Pos())
		}
	case "recover":
		if v != nil {
			e.havocVal(v)
		}
	default:
		e.flag("unmodelled-builtin:" + b.Name())
		if v != nil {
			e.havocVal(v)
		}
	}
}

func (e *Enc) appendBuiltin(v ssa.Value, c *ssa.CallCommon, in ssa.Instruction) {
	s := e.val(c.Args[0])
	t := e.val(c.Args[1])
	st, ok := c.Args[0].Type().Underlying().(*types.Slice)
	if !ok || t.Sort != sSlice {
		e.havocVal(v)
		return
	}
	es := e.sortOf(st.Elem())
	k := e.arrKeyT(st.Elem())
	h := e.get(e.st, k)
	oldA := sel(h, "(sbase "+s.S+")")
	tA := sel(h, "(sbase "+t.S+")")
	r := e.allocRef("append")
	// constant number of appended elements?
	n := -1
	if sl, ok := c.Args[1].(*ssa.Slice); ok {
		if pt, ok := sl.X.Type().Underlying().(*types.Pointer); ok {
			if at, ok := pt.Elem().Underlying().(*types.Array); ok && sl.High == nil && sl.Low == nil {
				n = int(at.Len())
			}
		}
	}
	if cst, ok := c.Args[1].(*ssa.Const); ok && cst.Value == nil {
		n = 0
	}
	var newA string
	if n >= 0 && n <= 8 {
		newA = oldA
		for i := 0; i < n; i++ {
			newA = store(newA, fmt.Sprintf("(+ (slen %s) %d)", s.S, i), sel(tA, strconv.Itoa(i)))
		}
		na := e.fresh("appA", "(Array Int "+es+")")
		e.assert(eq(na, newA))
		newA = na
		e.setFresh(k, store(e.get(e.st, k), r, newA))
		e.setVal(v, fmt.Sprintf("(mkslice %s (+ (slen %s) %d))", r, s.S, n))
		return
	}
	na := e.fresh("appA", "(Array Int "+es+")")
	e.assert(fmt.Sprintf("(forall ((i Int)) (! (=> (and (<= 0 i) (< i (slen %s))) (= (select %s i) (select %s i))) :pattern ((select %s i))))", s.S, na, oldA, na))
	e.assert(fmt.Sprintf("(forall ((i Int)) (! (=> (and (<= 0 i) (< i (slen %s))) (= (select %s (+ (slen %s) i)) (select %s i))) :pattern ((select %s (+ (slen %s) i)))))", t.S, na, s.S, tA, na, s.S))
	e.setFresh(k, store(e.get(e.st, k), r, na))
	e.setVal(v, fmt.Sprintf("(mkslice %s (+ (slen %s) (slen %s)))", r, s.S, t.S))
}

// typeInvsFor returns the object invariants that apply to methods with the given receiver.
func (e *Enc) typeInvsFor(fn *ssa.Function) []*TypeInv {
	if fn == nil || fn.Signature.Recv() == nil || fn.Pkg == nil {
		return nil
	}
	rt := fn.Signature.Recv().Type()
	name := ""
	if p, ok := rt.(*types.Pointer); ok {
		if n, ok := p.Elem().(*types.Named); ok {
			name = "*" + n.Obj().Name()
		}
	} else if n, ok := rt.(*types.Named); ok {
		name = n.Obj().Name()
	}
	var out []*TypeInv
	for _, iv := range e.w.cs.Invs {
		if iv.Pkg == fn.Pkg.Pkg.Path() && iv.Type == name {
			out = append(out, iv)
		}
	}
	return out
}

// writesRecvFields: does this method store into fields (or slice elements reached through fields) of its receiver's struct type?
// Object invariants are proved at the exits of exactly these methods and assumed everywhere else (encapsulation is checked by
// encapsulationObligations).
func (e *Enc) writesRecvFields() bool {
	if e.fn == nil || e.fn.Signature.Recv() == nil {
		return false
	}
	return storesToStruct(e.fn, deref(e.fn.Signature.Recv().Type()))
}

// invFields: names of the receiver fields that the object invariants of a type mention (nil = all fields).
func (w *World) invFields(pkg, typeName string) map[string]bool {
	out := map[string]bool{}
	var walk func(x Expr, recv string)
	walk = func(x Expr, recv string) {
		switch n := x.(type) {
		case *SelE:
			if id, ok := n.X.(*Ident); ok && id.Name == recv {
				out[n.Name] = true
			}
			walk(n.X, recv)
		case *Unary:
			walk(n.X, recv)
		case *Binary:
			walk(n.X, recv)
			walk(n.Y, recv)
		case *CondE:
			walk(n.C, recv)
			walk(n.A, recv)
			walk(n.B, recv)
		case *CallE:
			for _, a := range n.Args {
				walk(a, recv)
			}
		case *IndexE:
			walk(n.X, recv)
			walk(n.I, recv)
		case *SliceE:
			walk(n.X, recv)
		case *QuantE:
			walk(n.Body, recv)
		case *OldE:
			walk(n.X, recv)
		}
	}
	for _, iv := range w.cs.Invs {
		if iv.Pkg == pkg && strings.TrimPrefix(iv.Type, "*") == typeName {
			walk(iv.Clause.E, iv.RecvName)
		}
	}
	return out
}

func storesToStruct(fn *ssa.Function, st types.Type) bool {
	return storesToFields(fn, st, nil)
}

func storesToFields(fn *ssa.Function, st types.Type, fields map[string]bool) bool {
	isField := func(v ssa.Value) bool {
		fa, ok := v.(*ssa.FieldAddr)
		if !ok || !types.Identical(deref(fa.X.Type()), st) {
			return false
		}
		if fields == nil {
			return true
		}
		u, ok := st.Underlying().(*types.Struct)
		return ok && fa.Field < u.NumFields() && fields[u.Field(fa.Field).Name()]
	}
	fromField := func(v ssa.Value) bool {
		ld, ok := v.(*ssa.UnOp)
		return ok && isField(ld.X)
	}
	for _, b := range fn.Blocks {
		for _, in := range b.Instrs {
			// updates of a map held in a field also change the object's abstract state
			if mu, ok := in.(*ssa.MapUpdate); ok && fromField(mu.Map) {
				return true
			}
			if c, ok := in.(*ssa.Call); ok {
				if bi, isB := c.Call.Value.(*ssa.Builtin); isB && (bi.Name() == "delete" || bi.Name() == "clear") && len(c.Call.Args) > 0 && fromField(c.Call.Args[0]) {
					return true
				}
			}
			s, ok := in.(*ssa.Store)
			if !ok {
				continue
			}
			if isField(s.Addr) {
				return true
			}
			if ia, ok := s.Addr.(*ssa.IndexAddr); ok {
				if ld, ok := ia.X.(*ssa.UnOp); ok && isField(ld.X) {
					return true
				}
			}
		}
	}
	return false
}

// assertsAt discharges `assert L: e at "<call text>"` clauses: the assertion must hold whenever control reaches a call
// whose source text equals the anchor.
func (e *Enc) assertsAt(call *ssa.Call) {
	if e.ctr == nil || len(e.ctr.Asserts) == 0 || e.pass == 1 {
		return
	}
	txt := e.w.exprTextAt(e.fn, call.Pos())
	for _, a := range e.ctr.Asserts {
		never := strings.HasPrefix(a.At, "never call ")
		byName := strings.HasPrefix(a.At, "call ") || never
		if byName {
			// `at "call Name"`: every call of a function or method with that name; $arg0.. are its arguments
			// (the receiver of a method is $recv), so the clause does not depend on how the call is spelled
			nm := ""
			if c := call.Common(); c.IsInvoke() {
				nm = c.Method.Name()
			} else if f := c.StaticCallee(); f != nil {
				nm = f.Name()
			}
			if nm == "" || nm != strings.TrimSpace(strings.TrimPrefix(strings.TrimPrefix(a.At, "never "), "call ")) {
				continue
			}
		} else if a.At == "" || strings.Join(strings.Fields(a.At), " ") != txt {
			continue
		}
		env := e.entryEnv()
		env.st = e.st
		env.old = e.entry
		e.currentParams(env, e.st)
		if byName {
			c := call.Common()
			args := c.Args
			if !c.IsInvoke() && c.Signature().Recv() != nil && len(args) > 0 {
				env.vars["$recv"] = e.val(args[0])
				args = args[1:]
			} else if c.IsInvoke() {
				env.vars["$recv"] = e.val(c.Value)
			}
			for i, x := range args {
				env.vars[fmt.Sprintf("$arg%d", i)] = e.val(x)
			}
		}
		b := e.curBlock
		idx := 0
		for i, in := range b.Instrs {
			if in == ssa.Instruction(call) {
				idx = i
			}
		}
		env.lookup = func(name string, st *State) (TV, bool) {
			e.lookupIdx = idx
			defer func() { e.lookupIdx = -1 }()
			return e.lookupLocal(name, b, st)
		}
		t, err := e.evalBool(a.E, env)
		name := "assert:" + a.Label
		if err != nil {
			e.contractError(name, err)
			continue
		}
		e.assertHit[a.Label]++
		if e.assertHit[a.Label] > 1 {
			name = fmt.Sprintf("%s#%d", name, e.assertHit[a.Label])
		}
		o := e.addObl("assert", name, a.Label, e.at[b], t)
		o.Pos = e.w.fset.Position(call.Pos())
		e.assume(t)
	}
}

// missingAsserts reports assert clauses whose anchor was not found.
func (e *Enc) missingAsserts() {
	if e.ctr == nil {
		return
	}
	// a loop clause that names a loop the function does not have (the body was restructured) must not vanish silently
	for n := range e.ctr.Loops {
		if n < 0 || n >= len(e.loopList) {
			e.contractError(fmt.Sprintf("loop%d", n), fmt.Errorf("the function has %d loop(s); the clauses for loop %d apply to nothing", len(e.loopList), n))
		}
	}
	for _, a := range e.ctr.Asserts {
		if e.assertHit[a.Label] == 0 && !strings.HasPrefix(a.At, "never call ") {
			// (`at "never call Name"` clauses are satisfied by the absence of such a call)
			e.contractError("assert:"+a.Label, fmt.Errorf("anchor %q not found in the function body", a.At))
		}
	}
}

// sortSliceCall models sort.Slice / sort.SliceStable / sort.Strings on a slice value: the elements in [0,len) are
// replaced by a permutation of themselves (both directions, through two witness arrays). Sortedness and stability
// are NOT modelled (the comparison closure is assumed free of side effects and its order is unknown), so only
// order-independent facts survive the call - which is what a proof about an unstable sort may rely on.
func (e *Enc) sortSliceCall(c *ssa.CallCommon, in ssa.Instruction) bool {
	fn := c.StaticCallee()
	if fn == nil || fn.Pkg == nil || fn.Pkg.Pkg.Path() != "sort" || len(c.Args) == 0 {
		return false
	}
	var x ssa.Value
	switch fn.Name() {
	case "Slice", "SliceStable":
		mi, ok := c.Args[0].(*ssa.MakeInterface)
		if !ok {
			return false
		}
		x = mi.X
	case "Strings", "Ints":
		x = c.Args[0]
	default:
		return false
	}
	st, ok := x.Type().Underlying().(*types.Slice)
	if !ok {
		return false
	}
	s := e.val(x).S
	k := e.arrKeyT(st.Elem())
	h := e.get(e.st, k)
	base := "(sbase " + s + ")"
	if e.ctr != nil && e.ctr.HasMod {
		e.frameCheckTargetStore(modTarget{k, base}, in)
	}
	rowSort := "(Array Int " + e.sortOf(st.Elem()) + ")"
	if strings.HasSuffix(k, "#ref") {
		rowSort = "(Array Int Int)"
	}
	oldRow := e.fresh("sortold", rowSort)
	e.assert(eq(oldRow, sel(h, base)))
	newRow := e.fresh("sortnew", rowSort)
	perm := e.fresh("sortperm", "(Array Int Int)")
	inv := e.fresh("sortinv", "(Array Int Int)")
	g := e.at[e.curBlock]
	n := "(slen " + s + ")"
	e.assert(imp(g, fmt.Sprintf("(forall ((i Int)) (! (=> (and (<= 0 i) (< i %s)) (and (<= 0 (select %s i)) (< (select %s i) %s) (= (select %s i) (select %s (select %s i))))) :pattern ((select %s i))))", n, perm, perm, n, newRow, oldRow, perm, newRow)))
	e.assert(imp(g, fmt.Sprintf("(forall ((j Int)) (! (=> (and (<= 0 j) (< j %s)) (and (<= 0 (select %s j)) (< (select %s j) %s) (= (select %s (select %s j)) (select %s j)))) :pattern ((select %s j))))", n, inv, inv, n, newRow, inv, oldRow, oldRow)))
	e.assert(imp(g, fmt.Sprintf("(forall ((i Int)) (=> (or (< i 0) (>= i %s)) (= (select %s i) (select %s i))))", n, newRow, oldRow)))
	e.set(k, store(h, base, newRow))
	e.noteTarget(k, x)
	e.flag("sort-as-permutation")
	return true
}
