package main

import (
	"encoding/json"
	"go/types"
	"flag"
	"fmt"
	"os"
	"path/filepath"
	"regexp"
	"sort"
	"strings"
	"time"

	"golang.org/x/tools/go/ssa"
)

var propRe = regexp.MustCompile(`^C\d\d$`)
var retSuffixRe = regexp.MustCompile(`@ret\d+$`)

// stableName drops the return-site ordinal so that findings and baseline groups survive added/removed returns.
func stableName(n string) string { return retSuffixRe.ReplaceAllString(n, "") }

// labelProps extracts property ids from a label such as "C01+C02.attr.exact".
func labelProps(label string) []string {
	i := strings.Index(label, ".")
	head := label
	if i >= 0 {
		head = label[:i]
	}
	var out []string
	for _, p := range strings.Split(head, "+") {
		if propRe.MatchString(p) {
			out = append(out, p)
		}
	}
	return out
}

// contractProps: all properties mentioned by a function contract.
func contractProps(c *FuncContract) []string {
	set := map[string]bool{}
	add := func(l string) {
		for _, p := range labelProps(l) {
			set[p] = true
		}
	}
	for _, r := range c.Requires {
		add(r.Label)
	}
	for _, r := range c.Ensures {
		add(r.Label)
	}
	for _, ls := range c.Loops {
		for _, iv := range ls.Invs {
			add(iv.Label)
		}
		if ls.Decreases != nil {
			add(ls.Decreases.Label)
		}
	}
	for _, a := range c.Asserts {
		add(a.Label)
	}
	return sortedKeys(set)
}

// oblProps decides which properties an obligation serves.
// verifRoot is the /verif directory (bounded stand-ins, stubs); the output directory of a check may differ.
var verifRoot string

func oblProps(w *World, o *Obl) []string {
	if ps := labelProps(o.Label); len(ps) > 0 {
		if o.Kind == "decreases" {
			ps = appendUnique(ps, "C11")
		}
		return ps
	}
	switch o.Kind {
	case "panic":
		// a panic inside a function under contract also breaks the properties that contract serves
		ps := []string{"C11"}
		if c := w.cs.Funcs[o.Fn]; c != nil {
			for _, p := range contractProps(c) {
				ps = appendUnique(ps, p)
			}
		}
		return ps
	case "call-pre":
		if strings.HasPrefix(o.Label, "nonnil.") {
			return []string{"C11"}
		}
	case "lock":
		return []string{"C09"}
	}
	var ps []string
	if c := w.cs.Funcs[o.Fn]; c != nil {
		ps = contractProps(c)
	}
	// a contract without its own property labels supports the properties of the functions that rely on it
	for _, p := range w.supportProps()[o.Fn] {
		ps = appendUnique(ps, p)
	}
	if o.Kind == "decreases" {
		ps = appendUnique(ps, "C11")
	}
	if o.Kind == "lemma" {
		// a lemma serves the properties of the functions that use it
		name := strings.TrimPrefix(o.Fn, "lemma::")
		for _, c := range w.cs.Funcs {
			uses := append([]*CallE{}, c.Uses...)
			for _, ls := range c.Loops {
				uses = append(uses, ls.Uses...)
			}
			for _, u := range uses {
				if u.Fun == name {
					for _, p := range contractProps(c) {
						ps = appendUnique(ps, p)
					}
				}
			}
		}
	}
	return ps
}

func appendUnique(xs []string, x string) []string {
	for _, y := range xs {
		if y == x {
			return xs
		}
	}
	return append(xs, x)
}

type BaselineEntry struct {
	Kind    string   `json:"kind"`
	Props   []string `json:"props"`
	Seconds float64  `json:"seconds,omitempty"`
}

type Baseline struct {
	Commit      string                   `json:"repo_commit"`
	Obligations map[string]BaselineEntry `json:"obligations"`
}

// NotDecided: contract obligations that the solvers cannot decide on the pinned tree (no defect known);
// they are reported in the evidence and never counted as proved nor alarmed.
type NotDecided struct {
	Obligation string `json:"obligation"`
	Reason     string `json:"reason"`
}

var notDecided map[string]string
var extraEvidence any

type KnownFinding struct {
	Property   string `json:"property"`
	Obligation string `json:"obligation"`
	Status     string `json:"status"` // open | fixed
	What       string `json:"what"`
	Witness    string `json:"witness,omitempty"`
	Commit     string `json:"commit,omitempty"`
}

func loadJSON(path string, v any) error {
	b, err := os.ReadFile(path)
	if err != nil {
		return err
	}
	return json.Unmarshal(b, v)
}

type runCtx struct {
	w       *World
	reports []*FuncReport
	obls    []*Obl
	byName  map[string]*Obl
	encErrs map[string]string
}

func buildAll(repo, verif string) (*runCtx, error) {
	w, err := loadWorld(repo, []string{filepath.Join(verif, "stubs")})
	if err != nil {
		return nil, err
	}
	if errs := w.specs.errors(); len(errs) > 0 {
		return nil, fmt.Errorf("spec function errors:\n  %s", strings.Join(errs, "\n  "))
	}
	rc := &runCtx{w: w, byName: map[string]*Obl{}, encErrs: map[string]string{}}
	for _, key := range sortedKeys(w.funcs) {
		if !inScope(key) {
			continue
		}
		rep := encodeFunc(w, w.funcs[key], false)
		rc.reports = append(rc.reports, rep)
		if rep.Err != "" && rep.Err != "no body" {
			rc.encErrs[key] = strings.SplitN(rep.Err, "\n", 2)[0]
		}
		rc.obls = append(rc.obls, rep.Obls...)
	}
	rc.obls = append(rc.obls, w.lemmaObligations()...)
	rc.obls = append(rc.obls, w.encapsulationObligations()...)
	// contracts whose target does not exist
	for _, k := range sortedKeys(w.cs.Funcs) {
		c := w.cs.Funcs[k]
		if c.Trusted || !strings.HasPrefix(k, modulePath) {
			continue
		}
		if _, ok := w.funcs[k]; !ok {
			rc.obls = append(rc.obls, &Obl{Fn: k, Name: k + "#target-missing", Kind: "contract-error", Label: "contract target function does not exist", Goal: "false", Guard: "true"})
		}
	}
	for _, o := range rc.obls {
		if prev, dup := rc.byName[o.Name]; dup && prev != o {
			// make names unique deterministically
			for i := 2; ; i++ {
				n := fmt.Sprintf("%s~%d", o.Name, i)
				if _, d := rc.byName[n]; !d {
					o.Name = n
					break
				}
			}
		}
		rc.byName[o.Name] = o
	}
	return rc, nil
}

func cmdBaseline(args []string) int {
	fs := flag.NewFlagSet("baseline", flag.ExitOnError)
	repo := fs.String("repo", "/repo", "")
	verif := fs.String("verif", "/verif", "")
	tier := fs.String("tier", "quick", "")
	out := fs.String("out", "", "")
	fs.Parse(args)
	if *out == "" {
		*out = filepath.Join(*verif, "baseline", "obligations.json")
	}
	t0 := time.Now()
	rc, err := buildAll(*repo, *verif)
	if err != nil {
		fmt.Fprintln(os.Stderr, err)
		return 2
	}
	var sel []*Obl
	for _, o := range rc.obls {
		if len(oblProps(rc.w, o)) > 0 {
			sel = append(sel, o)
		}
	}
	fmt.Printf("%d obligations (%d with a property), encoded in %.1fs\n", len(rc.obls), len(sel), time.Since(t0).Seconds())
	res := solveAll(rc.w, sel, *tier, 10, "")
	bl := Baseline{Obligations: map[string]BaselineEntry{}}
	counts := map[string]int{}
	for _, r := range res {
		counts[r.Status]++
		if r.Status == "discharged" {
			bl.Obligations[r.Obl.Name] = BaselineEntry{Kind: r.Obl.Kind, Props: oblProps(rc.w, r.Obl), Seconds: round3(r.Seconds)}
			if r.Seconds > 4 {
				fmt.Printf("SLOW %.1fs %s (%s)\n", r.Seconds, r.Obl.Name, r.Solver)
			}
		} else if r.Obl.Kind != "panic" && !strings.HasPrefix(r.Obl.Label, "nonnil.") {
			fmt.Printf("NOT DISCHARGED %-9s %s %s\n", r.Status, r.Obl.Name, firstLines(nonModel(r.Output), 1))
		}
	}
	for k, v := range rc.encErrs {
		fmt.Printf("ENCODER ERROR %s: %s\n", k, v)
	}
	b, _ := json.MarshalIndent(bl, "", " ")
	os.MkdirAll(filepath.Dir(*out), 0o755)
	os.WriteFile(*out, b, 0o644)
	fmt.Printf("baseline: %d discharged obligations written to %s; %v; %.1fs\n", len(bl.Obligations), *out, counts, time.Since(t0).Seconds())
	return 0
}

type sample struct {
	Obligation string  `json:"obligation"`
	Kind       string  `json:"kind"`
	Answer     string  `json:"answer"`
	Solver     string  `json:"solver"`
	Seconds    float64 `json:"seconds"`
	SMTBytes   int     `json:"smt_bytes"`
	Source     string  `json:"source,omitempty"`
}

func cmdCheck(args []string) int {
	fs := flag.NewFlagSet("check", flag.ExitOnError)
	repo := fs.String("repo", "/repo", "")
	verif := fs.String("verif", "/verif", "")
	prop := fs.String("property", "", "property id, or 'all'")
	tier := fs.String("tier", "quick", "")
	outDir := fs.String("out", "", "directory for evidence/ and replay/ (default: the verif directory)")
	extraFile := fs.String("extra", "", "JSON file whose content is added to the evidence under coverage.thorough_extra")
	fs.Parse(args)
	t0 := time.Now()
	seed := 0
	fmt.Sscanf(os.Getenv("VERIF_SEED"), "%d", &seed)
	var bl Baseline
	if err := loadJSON(filepath.Join(*verif, "baseline", "obligations.json"), &bl); err != nil {
		fmt.Fprintln(os.Stderr, "cannot read baseline:", err)
		return 2
	}
	var kfs []KnownFinding
	loadJSON(filepath.Join(*verif, "known_findings.json"), &kfs)
	var nds []NotDecided
	loadJSON(filepath.Join(*verif, "baseline", "not_decided.json"), &nds)
	notDecided = map[string]string{}
	for _, n := range nds {
		notDecided[n.Obligation] = n.Reason
	}
	rc, err := buildAll(*repo, *verif)
	if err != nil {
		fmt.Fprintln(os.Stderr, "TOOL ERROR:", err)
		return 2
	}
	props := []string{*prop}
	if *prop == "all" {
		props = nil
		var man struct {
			Checks []struct {
				PropertyID string `json:"property_id"`
			} `json:"checks"`
		}
		loadJSON(filepath.Join(*verif, "MANIFEST.json"), &man)
		for _, c := range man.Checks {
			props = append(props, c.PropertyID)
		}
	}
	// solve the union once
	need := map[string]bool{}
	for _, p := range props {
		need[p] = true
	}
	var sel []*Obl
	oprops := map[*Obl][]string{}
	for _, o := range rc.obls {
		ps := oblProps(rc.w, o)
		oprops[o] = ps
		for _, p := range ps {
			if need[p] {
				sel = append(sel, o)
				break
			}
		}
	}
	// cover obligations of the functions involved
	fnSeen := map[string]bool{}
	for _, o := range sel {
		fnSeen[o.Fn] = true
	}
	var covers []*Obl
	for _, o := range sel {
		if o.enc != nil && fnSeen[o.Fn] && o.enc.fn != nil {
			covers = append(covers, o.enc.coverObls()...)
			fnSeen[o.Fn] = false
		}
	}
	for _, o := range sel {
		if _, inBase := bl.Obligations[o.Name]; !inBase && *tier == "quick" && (o.Kind == "panic" || strings.HasPrefix(o.Label, "nonnil.")) {
			o.Short = true
		}
	}
	res := solveAll(rc.w, sel, *tier, 10, "")
	cres := solveAll(rc.w, covers, *tier, 10, "")
	byObl := map[*Obl]*Result{}
	for _, r := range res {
		byObl[r.Obl] = r
	}
	// a function is vacuous when none of its return sites is reachable under the assumed contracts
	// (a single unreachable return is ordinary dead code, e.g. a nil check under the non-nil default)
	vacuous := map[string]bool{}
	reach := map[string]bool{}
	for _, r := range cres {
		if r.Status == "discharged" {
			if _, seen := vacuous[r.Obl.Fn]; !seen {
				vacuous[r.Obl.Fn] = true
			}
		} else {
			reach[r.Obl.Fn] = true
		}
	}
	for fn := range reach {
		delete(vacuous, fn)
	}
	solveS := time.Since(t0).Seconds()
	exit := 0
	verifRoot = *verif
	if *outDir == "" {
		*outDir = *verif
	}
	extraEvidence = nil
	if *extraFile != "" {
		var x any
		if loadJSON(*extraFile, &x) == nil {
			extraEvidence = x
		}
	}
	os.MkdirAll(filepath.Join(*outDir, "evidence"), 0o755)
	os.MkdirAll(filepath.Join(*outDir, "replay"), 0o755)
	for _, p := range props {
		if checkProperty(rc, p, *tier, seed, *outDir, bl, kfs, sel, oprops, byObl, vacuous, solveS, t0) != 0 {
			exit = 1
		}
	}
	return exit
}

// coverObls: one reachability query per return site; an unsat answer means the assumptions on every path to that
// return are contradictory (vacuous proofs).
func (e *Enc) coverObls() []*Obl {
	var out []*Obl
	if e.fn == nil {
		return nil
	}
	for i, g := range e.retGuards {
		out = append(out, &Obl{Fn: e.key, Name: fmt.Sprintf("%s#cover:return%d", e.key, i+1), Kind: "cover", NAssert: len(e.asserts), Guard: g, Goal: "false", enc: e, Inputs: e.inputs})
	}
	return out
}

func checkProperty(rc *runCtx, p, tier string, seed int, verif string, bl Baseline, kfs []KnownFinding, sel []*Obl, oprops map[*Obl][]string,
	byObl map[*Obl]*Result, vacuous map[string]bool, solveS float64, t0 time.Time) int {
	has := func(ps []string) bool {
		for _, x := range ps {
			if x == p {
				return true
			}
		}
		return false
	}
	open := map[string]KnownFinding{}
	for _, k := range kfs {
		if k.Property == p && k.Status == "open" {
			open[k.Obligation] = k
		}
	}
	type viol struct {
		obl, why, replay string
		confirmed        bool
	}
	var viols []viol
	var known, notDec []string
	var claimed, discharged int
	var undecided []sample
	samples := []sample{}
	perSolver := map[string]int{}
	var solverSeconds float64
	var slowest sample
	fns := map[string]bool{}
	now := map[string]bool{}
	for _, o := range sel {
		if !has(oprops[o]) {
			continue
		}
		now[o.Name] = true
		now[stableName(o.Name)] = true
		r := byObl[o]
		fns[shortKey(o.Fn)] = true
		sm := sample{Obligation: strings.TrimPrefix(o.Name, modulePath), Kind: o.Kind, Answer: r.Status, Solver: r.Solver, Seconds: round3(r.Seconds), SMTBytes: r.QueryLen}
		if o.Pos.IsValid() {
			sm.Source = fmt.Sprintf("%s:%d", strings.TrimPrefix(o.Pos.Filename, "/repo/"), o.Pos.Line)
		}
		solverSeconds += r.Seconds
		if r.Seconds > slowest.Seconds {
			slowest = sm
		}
		_, inBase := bl.Obligations[o.Name]
		_, isOpen := open[stableName(o.Name)]
		ok := r.Status == "discharged" && !vacuous[o.Fn]
		switch {
		case ok:
			claimed++
			discharged++
			perSolver[r.Solver]++
			if len(samples) < 6 || (o.Kind != "panic" && len(samples) < 12) {
				samples = append(samples, sm)
			}
		case notDecided[stableName(o.Name)] != "":
			notDec = append(notDec, strings.TrimPrefix(o.Name, modulePath)+" — "+notDecided[stableName(o.Name)])
		case isOpen:
			known = append(known, fmt.Sprintf("KNOWN-FINDING: property=%s obligation=%s %s", p, strings.TrimPrefix(o.Name, modulePath), open[stableName(o.Name)].What))
		case inBase || (o.Kind != "panic" && !strings.HasPrefix(o.Label, "nonnil.")):
			claimed++
			why := r.Status
			if vacuous[o.Fn] {
				why = "vacuous: no return of the function is reachable under its contract"
			}
			rp, conf := writeReplay(rc, verif, p, o, r, why)
			viols = append(viols, viol{o.Name, why, rp, conf})
		default:
			undecided = append(undecided, sm)
		}
	}
	// baseline obligations that disappeared
	for _, name := range sortedKeys(bl.Obligations) {
		be := bl.Obligations[name]
		if !has(be.Props) || now[name] || now[stableName(name)] {
			continue
		}
		if _, isOpen := open[stableName(name)]; isOpen {
			continue
		}
		switch be.Kind {
		case "post", "inv-init", "inv-keep", "lemma", "decreases", "assert":
			claimed++
			fn := strings.SplitN(name, "#", 2)[0]
			why := "obligation-missing: the contract clause can no longer be checked"
			if e, bad := rc.encErrs[fn]; bad {
				why = "encoder-error: " + e
			} else if _, exists := rc.w.funcs[fn]; !exists && !strings.HasPrefix(fn, "lemma::") {
				why = "target-missing: function under contract no longer exists"
			}
			o := &Obl{Fn: fn, Name: name, Kind: be.Kind}
			rp, _ := writeReplay(rc, verif, p, o, &Result{Obl: o, Status: "missing", Output: why}, why)
			viols = append(viols, viol{name, why, rp, false})
		}
	}
	// bounded stand-ins for functions outside the subset (never counted as proved)
	bres := runBounded(rc.w.repo, verifRoot, p, tier)
	for _, br := range bres {
		// cases the stand-in classifies under a key are findings only if that key is listed as open; otherwise violations
		for _, key := range sortedKeys(br.Known) {
			name := "bounded:" + br.Name + ":" + key
			if kf, isOpen := open[name]; isOpen && kf.Property == p {
				known = append(known, fmt.Sprintf("KNOWN-FINDING: property=%s obligation=%s %s", p, name, kf.What))
				continue
			}
			// a stand-in may serve several properties: a keyed case listed as an open finding of another property
			// belongs to that property's check, not to this one
			elsewhere := false
			for _, k := range kfs {
				if k.Status == "open" && k.Obligation == name && k.Property != p {
					elsewhere = true
				}
			}
			if elsewhere {
				continue
			}
			path := filepath.Join(verif, "replay", "bounded_"+p+"_"+br.Name+"_"+sanitize(key)+".json")
			b, _ := json.MarshalIndent(map[string]any{"stand_in": br.Name, "key": key, "first_case": br.Known[key], "cmd": br.Cmd}, "", " ")
			os.WriteFile(path, b, 0o644)
			viols = append(viols, viol{name, "bounded-fail: " + br.Known[key], path, true})
		}
		if br.Status != "bounded-pass" {
			path := filepath.Join(verif, "replay", "bounded_"+p+"_"+br.Name+".json")
			b, _ := json.MarshalIndent(br, "", " ")
			os.WriteFile(path, b, 0o644)
			viols = append(viols, viol{"bounded:" + br.Name, br.Status + ": " + br.Summary + " first: " + firstOr(br.Failures), path, br.Status == "bounded-fail"})
		}
	}
	for _, k := range known {
		fmt.Println(k)
	}
	for _, v := range viols {
		suffix := ""
		if !v.confirmed {
			suffix = " no-failing-input-found"
		}
		fmt.Printf("VIOLATION property=%s replay=%s obligation=%s reason=%s%s\n", p, v.replay, strings.TrimPrefix(v.obl, modulePath), strings.ReplaceAll(firstLines(v.why, 1), " ", "_"), suffix)
	}
	// evidence
	level := "proof"
	var flagged, unmodelled []string
	for _, rep := range rc.reports {
		if !fns[shortKey(rep.Key)] {
			continue
		}
		for _, f := range rep.Flags {
			flagged = appendUnique(flagged, shortKey(rep.Key)+": "+f)
		}
		for _, u := range rep.Unmodelled {
			unmodelled = appendUnique(unmodelled, shortKey(rep.Key)+" -> "+shortKey(u))
		}
	}
	sort.Slice(undecided, func(i, j int) bool { return undecided[i].Obligation < undecided[j].Obligation })
	undecidedNames := []string{}
	for i, u := range undecided {
		if i >= 200 {
			break
		}
		undecidedNames = append(undecidedNames, u.Obligation)
	}
	ev := map[string]any{
		"property_id": p,
		"tier":        tier,
		"seed":        seed,
		"level":       level,
		"wall_s":      round3(time.Since(t0).Seconds()),
		"violations":  len(viols),
		"coverage": map[string]any{
			"obligations":          claimed,
			"discharged":           discharged,
			"checker_cmd":          fmt.Sprintf("/verif/bin/govc check -property %s -tier %s (z3-new 5.1.0 -> portfolio z3-new|cvc5 1.0.3|z3 4.8.12, one fresh process per obligation)", p, tier),
			"trusted_base":         trustedBase(rc),
			"functions_under_contract": sortedKeys(fns),
			"per_backend":          perSolver,
			"solver_seconds":       round3(solverSeconds),
			"slowest_query":        slowest,
			"samples":              samples,
			"known_findings_open":  known,
			"not_decided":          notDec,
			"undecided_not_claimed": map[string]any{"count": len(undecided), "names": undecidedNames, "note": "panic-freedom obligations that are not in the baseline and did not discharge; not counted as proved, not alarmed"},
			"modelling_flags":      flagged,
			"unmodelled_callees":   unmodelled,
			"vacuity":              fmt.Sprintf("%d functions checked for a reachable return (cover query sat); vacuous: %d", len(fns), len(vacuous)),
			"violations_detail":    viols2(viols),
			"thorough_extra":       extraEvidence,
			"bounded":              bres,
		},
		"assumptions": assumptions(),
	}
	b, _ := json.MarshalIndent(ev, "", " ")
	os.WriteFile(filepath.Join(verif, "evidence", p+".json"), b, 0o644)
	fmt.Printf("%s: %d obligations claimed, %d discharged, %d known findings, %d undecided (unclaimed), %d violations, %.1fs\n", p, claimed, discharged, len(known), len(undecided), len(viols), time.Since(t0).Seconds())
	if claimed == 0 && len(known) == 0 {
		fmt.Printf("TOOL ERROR: no obligations generated for %s\n", p)
		return 2
	}
	if len(viols) > 0 {
		return 1
	}
	return 0
}

func viols2(v any) any { return fmt.Sprintf("%v", v) }

func round3(f float64) float64 { return float64(int(f*1000+0.5)) / 1000 }

func trustedBase(rc *runCtx) []string {
	tb := []string{
		"go/packages+go/types+go/ssa (x/tools v0.29.0) as the front end; SSA built from /repo's working tree on every run",
		"govc VC generator (this repository, /verif/govc)",
		"SMT solvers z3 5.1.0, z3 4.8.12, cvc5 1.0.3",
	}
	var stubs []string
	for _, k := range sortedKeys(rc.w.cs.Funcs) {
		c := rc.w.cs.Funcs[k]
		if c.Trusted || !strings.HasPrefix(k, modulePath) {
			stubs = append(stubs, shortKey(k))
		}
	}
	tb = append(tb, "assumed stub contracts (external functions, emitted as call-site facts): "+strings.Join(stubs, ", "))
	var axioms []string
	for _, k := range sortedKeys(rc.w.cs.Lemmas) {
		if rc.w.cs.Lemmas[k].Axiom {
			axioms = append(axioms, k)
		}
	}
	tb = append(tb, "axioms about uninterpreted spec functions (used only through explicit ground instances): "+strings.Join(axioms, ", "))
	for _, tn := range sortedKeys(rc.w.cs.Writers) {
		tb = append(tb, "object invariant of "+tn+" assumed to be restored by the outside writers: "+strings.Join(rc.w.cs.Writers[tn], ", "))
	}
	tb = append(tb, "external functions treated as side-effect free with unconstrained results: "+strings.Join(rc.w.purePats, " "))
	return tb
}

func assumptions() []string {
	return []string{
		"integers are mathematical (overflow of int arithmetic is not checked)",
		"a Go string is an SMT string, one SMT character per byte; range-over-string decoding is over-approximated",
		"append always yields a fresh backing array; re-slicing with a non-zero low bound copies (aliasing through shared backing arrays is not modelled)",
		"capacity of slices is not modelled (slice high bound checked against len)",
		"map iteration order is arbitrary (a fresh unvisited key per step)",
		"pointer parameters and receivers are non-nil on entry (asserted at repository-internal call sites)",
		"references held in the heap are allocated (<= allocation counter); objects allocated during a call are fresh",
		"calls without contract havoc all heap and ghost state (sound); externals listed as pure leave state untouched",
		"destination-writer ghost state out(w)/failed(w) changes only through calls that receive w explicitly",
		"no goroutines/channels/select in verified functions; recover() is ignored; panics of contracted callees are part of their contract",
		"floating point values inside `any` are IEEE (SMT FloatingPoint), NaN excluded",
	}
}

// writeReplay stores what is known about a failed obligation and tries to confirm it on the real code.
func writeReplay(rc *runCtx, verif, p string, o *Obl, r *Result, why string) (string, bool) {
	path := filepath.Join(verif, "replay", sanitize(strings.TrimPrefix(o.Name, modulePath))+".json")
	inputs := map[string]string{}
	if r.Model != "" {
		m := parseModel(r.Model)
		for _, in := range o.Inputs {
			if v, ok := m[in]; ok {
				inputs[in] = v
			}
		}
	}
	confirmed := false
	replayOut := ""
	if r.Status == "refuted" && o.enc != nil && o.enc.fn != nil {
		confirmed, replayOut = replayOnRealCode(rc, verif, o, r, inputs)
	}
	out := r.Output
	if len(out) > 6000 {
		out = out[:6000] + "…"
	}
	doc := map[string]any{
		"property": p, "obligation": o.Name, "kind": o.Kind, "label": o.Label, "status": r.Status, "reason": why,
		"solver": r.Solver, "model_inputs": inputs, "solver_output": out, "confirmed_on_real_code": confirmed, "replay_output": replayOut,
		"source": fmt.Sprintf("%s:%d", o.Pos.Filename, o.Pos.Line),
		"rerun":  fmt.Sprintf("/verif/bin/govc run -fn '%s$' -obl '%s' -model", regexp.QuoteMeta(strings.SplitN(o.Name, "#", 2)[0]), regexp.QuoteMeta(afterHash(o.Name))),
	}
	b, _ := json.MarshalIndent(doc, "", " ")
	os.WriteFile(path, b, 0o644)
	return path, confirmed
}

func afterHash(s string) string {
	if i := strings.Index(s, "#"); i >= 0 {
		return s[i+1:]
	}
	return s
}

// encapsulationObligations: fields of a type with an object invariant may only be written by methods of that type
// (and by the constructor named in an ensures clause). One trivially true/false obligation per offending function.
func (w *World) encapsulationObligations() []*Obl {
	var out []*Obl
	seen := map[string]bool{}
	for _, iv := range w.cs.Invs {
		tn := strings.TrimPrefix(iv.Type, "*")
		if seen[iv.Pkg+"."+tn] {
			continue
		}
		seen[iv.Pkg+"."+tn] = true
		p := w.pkgByID[iv.Pkg]
		if p == nil {
			continue
		}
		obj := p.Types.Scope().Lookup(tn)
		if obj == nil {
			continue
		}
		st := obj.Type()
		var offenders []string
		for _, key := range sortedKeys(w.funcs) {
			fn := w.funcs[key]
			if len(fn.Blocks) == 0 || !storesToFields(fn, st, w.invFields(iv.Pkg, tn)) {
				continue
			}
			if fn.Signature.Recv() != nil && types.Identical(deref(fn.Signature.Recv().Type()), st) {
				continue
			}
			if c := w.cs.Funcs[key]; c != nil && len(c.Ensures) > 0 { // constructor with an explicit contract
				continue
			}
			allowed := false
			for _, a := range w.cs.Writers[tn] {
				if a == shortKey(key) {
					allowed = true
				}
			}
			if allowed {
				continue
			}
			offenders = append(offenders, shortKey(key))
		}
		goal := "true"
		if len(offenders) > 0 {
			goal = "false"
		}
		e := &Enc{w: w, key: iv.Pkg + "::" + tn}
		e.reset()
		e.pass = 2
		o := e.addObl("post", "encapsulation:"+tn, iv.Clause.Label, "true", goal)
		if len(offenders) > 0 {
			o.Extra = nil
			o.Label = iv.Clause.Label
			o.Name += ":written-by:" + strings.Join(offenders, ",")
		}
		out = append(out, o)
	}
	return out
}

// supportProps: for every function with a contract, the properties of all (transitive) callers whose proofs use that contract.
func (w *World) supportProps() map[string][]string {
	if w.support != nil {
		return w.support
	}
	callees := map[string][]string{} // caller key -> contracted callee keys
	for key, fn := range w.funcs {
		seen := map[string]bool{}
		for _, b := range fn.Blocks {
			for _, in := range b.Instrs {
				ci, ok := in.(ssa.CallInstruction)
				if !ok {
					continue
				}
				c := ci.Common()
				var ks []string
				if c.IsInvoke() {
					e := &Enc{w: w}
					ks, _ = e.calleeKeys(c)
				} else if f := c.StaticCallee(); f != nil {
					ks = []string{fnKey(f)}
				}
				for _, k := range ks {
					if w.cs.Funcs[k] != nil && !seen[k] && k != key {
						seen[k] = true
						callees[key] = append(callees[key], k)
					}
				}
			}
		}
	}
	props := map[string]map[string]bool{}
	add := func(k, p string) bool {
		if props[k] == nil {
			props[k] = map[string]bool{}
		}
		if props[k][p] {
			return false
		}
		props[k][p] = true
		return true
	}
	own := map[string][]string{}
	for k, c := range w.cs.Funcs {
		own[k] = contractProps(c)
	}
	for changed := true; changed; {
		changed = false
		for caller, cs := range callees {
			src := append([]string{}, own[caller]...)
			for p := range props[caller] {
				src = append(src, p)
			}
			for _, callee := range cs {
				for _, p := range src {
					if add(callee, p) {
						changed = true
					}
				}
			}
		}
	}
	w.support = map[string][]string{}
	for k, m := range props {
		w.support[k] = sortedKeys(m)
	}
	return w.support
}
