package main

// Purity inference: a repository function without a contract is treated as not modifying caller-visible state
// when its body only writes to objects it allocated itself and only calls functions known to be pure.
// This is a checked syntactic analysis over the SSA of the current tree (not an assumption).

import (
	"go/types"

	"golang.org/x/tools/go/ssa"
)

func (w *World) inferPurity() {
	w.inferredPure = map[string]bool{}
	// optimistic fixpoint: start with all candidates pure, remove until stable
	cand := map[string]*ssa.Function{}
	for k, fn := range w.funcs {
		if len(fn.Blocks) == 0 {
			continue
		}
		if c := w.cs.Funcs[k]; c != nil {
			continue
		}
		cand[k] = fn
		w.inferredPure[k] = true
	}
	for changed := true; changed; {
		changed = false
		for k, fn := range cand {
			if !w.inferredPure[k] {
				continue
			}
			if !w.bodyIsPure(fn) {
				w.inferredPure[k] = false
				changed = true
			}
		}
	}
}

func localRoot(v ssa.Value) bool {
	for {
		switch x := v.(type) {
		case *ssa.Alloc:
			return true
		case *ssa.FieldAddr:
			v = x.X
		case *ssa.IndexAddr:
			if _, isSlice := x.X.Type().Underlying().(*types.Slice); isSlice {
				return localSlice(x.X)
			}
			v = x.X
		default:
			return false
		}
	}
}

func localSlice(v ssa.Value) bool {
	switch x := v.(type) {
	case *ssa.MakeSlice:
		return true
	case *ssa.Slice:
		if _, isPtr := x.X.Type().Underlying().(*types.Pointer); isPtr {
			return localRoot(x.X)
		}
		return false
	}
	return false
}

func (w *World) calleePure(c *ssa.CallCommon) bool {
	if b, ok := c.Value.(*ssa.Builtin); ok {
		switch b.Name() {
		case "len", "cap", "append", "print", "println", "min", "max", "panic", "recover":
			return true
		case "delete", "clear":
			_, isMk := c.Args[0].(*ssa.MakeMap)
			return isMk
		}
		return false
	}
	if c.IsInvoke() {
		return false
	}
	fn := c.StaticCallee()
	if fn == nil {
		return false
	}
	if _, isClosure := c.Value.(*ssa.MakeClosure); isClosure {
		return false
	}
	k := fnKey(fn)
	if ct := w.cs.Funcs[k]; ct != nil {
		return ct.Pure || (ct.HasMod && len(ct.Modifies) == 0)
	}
	if w.inferredPure[k] {
		return true
	}
	if fn.Pkg == nil || !w.isRepoPkg(fn.Pkg.Pkg.Path()) {
		return w.isPureExternal(k)
	}
	return false
}

func (w *World) bodyIsPure(fn *ssa.Function) bool {
	for _, b := range fn.Blocks {
		for _, in := range b.Instrs {
			switch x := in.(type) {
			case *ssa.Store:
				if !localRoot(x.Addr) {
					return false
				}
			case *ssa.MapUpdate:
				if _, ok := x.Map.(*ssa.MakeMap); !ok {
					return false
				}
			case *ssa.Call:
				if !w.calleePure(x.Common()) {
					return false
				}
			case *ssa.Defer:
				if !w.calleePure(x.Common()) {
					return false
				}
			case *ssa.Go, *ssa.Send, *ssa.Select, *ssa.MakeClosure:
				return false
			}
		}
	}
	return true
}
