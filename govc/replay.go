package main

// Replay of a solver counterexample against the real code.
//
// For a refuted obligation of a function whose parameters are plain values (strings, integers, booleans, `any`
// holding one of those), the model's inputs are turned into Go literals, an in-package test is injected with
// `go test -overlay` (nothing is written into /repo), the real function is called, and the observed results are
// fed back into the obligation's query together with the inputs. If that query is still satisfiable the real
// execution violates the clause: the violation is confirmed on the real code.

import (
	"encoding/json"
	"fmt"
	"go/types"
	"os"
	"os/exec"
	"path/filepath"
	"regexp"
	"strconv"
	"strings"
	"time"
)

type goArg struct {
	lit  string
	smt  string
	name string
}

func smtStrToGo(t string) (string, bool) {
	if len(t) < 2 || t[0] != '"' || t[len(t)-1] != '"' {
		return "", false
	}
	body := t[1 : len(t)-1]
	var b []byte
	for i := 0; i < len(body); i++ {
		c := body[i]
		if c == '"' && i+1 < len(body) && body[i+1] == '"' {
			b = append(b, '"')
			i++
			continue
		}
		if c == '\\' && strings.HasPrefix(body[i:], "\\u{") {
			j := strings.IndexByte(body[i:], '}')
			if j < 0 {
				return "", false
			}
			v, err := strconv.ParseUint(body[i+3:i+j], 16, 32)
			if err != nil || v > 255 {
				return "", false
			}
			b = append(b, byte(v))
			i += j
			continue
		}
		if c == '\\' && strings.HasPrefix(body[i:], "\\x") && i+3 < len(body) {
			v, err := strconv.ParseUint(body[i+2:i+4], 16, 8)
			if err == nil {
				b = append(b, byte(v))
				i += 3
				continue
			}
		}
		b = append(b, c)
	}
	return string(b), true
}

func smtIntToGo(t string) (string, bool) {
	t = strings.TrimSpace(t)
	if strings.HasPrefix(t, "(- ") {
		return "-" + strings.TrimSuffix(strings.TrimPrefix(t, "(- "), ")"), true
	}
	if _, err := strconv.ParseInt(t, 10, 64); err == nil {
		return t, true
	}
	if _, err := strconv.ParseUint(t, 10, 64); err == nil {
		return t, true
	}
	return "", false
}

var fpRe = regexp.MustCompile(`^\(fp #b([01]) #[bx]([0-9a-f]+) #[bx]([0-9a-f]+)\)$`)

func smtFloatToGo(t string, bits int) (string, bool) {
	t = strings.TrimSpace(t)
	switch {
	case strings.HasPrefix(t, "(_ +zero"):
		return "0.0", true
	case strings.HasPrefix(t, "(_ -zero"):
		return "math.Copysign(0, -1)", true
	case strings.HasPrefix(t, "(_ +oo"):
		return "math.Inf(1)", true
	case strings.HasPrefix(t, "(_ -oo"):
		return "math.Inf(-1)", true
	}
	m := fpRe.FindStringSubmatch(t)
	if m == nil {
		return "", false
	}
	toBits := func(s string, isHex bool) string {
		if !isHex {
			return s
		}
		var b strings.Builder
		for _, c := range s {
			v, _ := strconv.ParseUint(string(c), 16, 8)
			fmt.Fprintf(&b, "%04b", v)
		}
		return b.String()
	}
	parts := strings.Fields(strings.Trim(t, "()"))
	e := toBits(m[2], strings.HasPrefix(parts[2], "#x"))
	f := toBits(m[3], strings.HasPrefix(parts[3], "#x"))
	all := m[1] + e + f
	if len(all) != bits {
		return "", false
	}
	v, err := strconv.ParseUint(all, 2, 64)
	if err != nil {
		return "", false
	}
	if bits == 64 {
		return fmt.Sprintf("math.Float64frombits(0x%x)", v), true
	}
	return fmt.Sprintf("float64(math.Float32frombits(0x%x))", v), true
}

var kindNames = map[int]string{2: "int", 3: "int8", 4: "int16", 5: "int32", 6: "int64", 7: "uint", 8: "uint8", 9: "uint16", 10: "uint32", 11: "uint64", 12: "uintptr"}

func smtValToGo(t string) (string, bool) {
	t = strings.TrimSpace(t)
	switch {
	case t == "VNil":
		return "nil", true
	case strings.HasPrefix(t, "(VBool "):
		return strings.TrimSuffix(strings.TrimPrefix(t, "(VBool "), ")"), true
	case strings.HasPrefix(t, "(VStr "):
		s, ok := smtStrToGo(strings.TrimSuffix(strings.TrimPrefix(t, "(VStr "), ")"))
		return strconv.Quote(s), ok
	case strings.HasPrefix(t, "(VInt "):
		f := strings.TrimSuffix(strings.TrimPrefix(t, "(VInt "), ")")
		sp := strings.IndexByte(f, ' ')
		if sp < 0 {
			return "", false
		}
		k, err := strconv.Atoi(f[:sp])
		n, ok := smtIntToGo(f[sp+1:])
		if err != nil || !ok || kindNames[k] == "" {
			return "", false
		}
		return fmt.Sprintf("%s(%s)", kindNames[k], n), true
	case strings.HasPrefix(t, "(VF64 "):
		f, ok := smtFloatToGo(strings.TrimSuffix(strings.TrimPrefix(t, "(VF64 "), ")"), 64)
		return "float64(" + f + ")", ok
	case strings.HasPrefix(t, "(VF32 "):
		f, ok := smtFloatToGo(strings.TrimSuffix(strings.TrimPrefix(t, "(VF32 "), ")"), 32)
		return "float32(" + f + ")", ok
	}
	return "", false
}

func goLiteralFor(t types.Type, smt string) (string, bool) {
	switch u := t.Underlying().(type) {
	case *types.Basic:
		switch {
		case u.Info()&types.IsString != 0:
			s, ok := smtStrToGo(smt)
			return strconv.Quote(s), ok
		case u.Info()&types.IsBoolean != 0:
			return smt, smt == "true" || smt == "false"
		case u.Info()&types.IsInteger != 0:
			return smtIntToGo(smt)
		}
	case *types.Interface:
		if u.NumMethods() == 0 {
			return smtValToGo(smt)
		}
	}
	return "", false
}

func goResultToSMT(t types.Type, raw json.RawMessage) (string, bool) {
	switch u := t.Underlying().(type) {
	case *types.Basic:
		switch {
		case u.Info()&types.IsString != 0:
			var s string
			if json.Unmarshal(raw, &s) != nil {
				return "", false
			}
			return smtString(s), true
		case u.Info()&types.IsBoolean != 0:
			return string(raw), true
		case u.Info()&types.IsInteger != 0:
			var n int64
			if json.Unmarshal(raw, &n) != nil {
				return "", false
			}
			return smtInt(n), true
		}
	}
	return "", false
}

func replayOnRealCode(rc *runCtx, verif string, o *Obl, r *Result, inputs map[string]string) (bool, string) {
	e := o.enc
	fn := e.fn
	if fn == nil || fn.Pkg == nil || fn.Signature.Recv() != nil || fn.Parent() != nil {
		return false, "replay: not a plain package-level function"
	}
	if o.Kind != "post" && o.Kind != "panic" {
		return false, "replay: only postconditions and panic obligations are replayed"
	}
	var args []goArg
	needMath := false
	for i, p := range fn.Params {
		if i >= len(o.Inputs) {
			return false, "replay: missing input names"
		}
		mv, ok := inputs[o.Inputs[i]]
		if !ok {
			// unconstrained by the model: any value works
			mv = rc.w.so.zero(p.Type())
		}
		lit, ok := goLiteralFor(p.Type(), mv)
		if !ok {
			return false, fmt.Sprintf("replay: parameter %s (%s) has no literal form for model value %s", p.Name(), p.Type(), mv)
		}
		if strings.Contains(lit, "math.") {
			needMath = true
		}
		args = append(args, goArg{lit: lit, smt: mv, name: o.Inputs[i]})
	}
	// spec functions with a Go implementation: evaluate them on every string argument
	type gi struct{ spec, impl string }
	var impls []gi
	for _, n := range sortedKeys(rc.w.cs.Specs) {
		sf := rc.w.cs.Specs[n]
		if sf.GoImpl != "" && len(sf.Params) == 1 && sf.Params[0].Type == "string" && sf.Ret == "string" {
			impls = append(impls, gi{n, sf.GoImpl})
		}
	}
	pkgDir := filepath.Join(rc.w.repo, strings.TrimPrefix(strings.TrimPrefix(fn.Pkg.Pkg.Path(), modulePath), "/"))
	var src strings.Builder
	fmt.Fprintf(&src, "package %s\n\nimport (\n\t\"encoding/json\"\n\t\"fmt\"\n\t\"testing\"\n\tstdhtml \"html\"\n", fn.Pkg.Pkg.Name())
	if needMath {
		src.WriteString("\t\"math\"\n")
	}
	src.WriteString(")\n\nvar _ = stdhtml.EscapeString\n\n")
	src.WriteString("func TestGovcReplay(t *testing.T) {\n\tout := map[string]any{}\n\tfunc() {\n\t\tdefer func() {\n\t\t\tif r := recover(); r != nil {\n\t\t\t\tout[\"panicked\"] = true\n\t\t\t\tout[\"panic\"] = fmt.Sprint(r)\n\t\t\t}\n\t\t}()\n")
	var lits []string
	for _, a := range args {
		lits = append(lits, a.lit)
	}
	nres := fn.Signature.Results().Len()
	var rnames []string
	for i := 0; i < nres; i++ {
		rnames = append(rnames, fmt.Sprintf("r%d", i))
	}
	call := fmt.Sprintf("%s(%s)", fn.Name(), strings.Join(lits, ", "))
	if nres > 0 {
		fmt.Fprintf(&src, "\t\t%s := %s\n\t\tout[\"results\"] = []any{%s}\n", strings.Join(rnames, ", "), call, strings.Join(rnames, ", "))
	} else {
		fmt.Fprintf(&src, "\t\t%s\n", call)
	}
	// goimpl evaluations on string inputs and string results
	src.WriteString("\t\timpl := map[string]map[string]string{}\n")
	for _, g := range impls {
		implExpr := strings.ReplaceAll(g.impl, "html.", "stdhtml.")
		fmt.Fprintf(&src, "\t\timpl[%q] = map[string]string{}\n", g.spec)
		for i, p := range fn.Params {
			if b, ok := p.Type().Underlying().(*types.Basic); ok && b.Info()&types.IsString != 0 {
				fmt.Fprintf(&src, "\t\timpl[%q][%s] = %s(%s)\n", g.spec, args[i].lit, implExpr, args[i].lit)
			}
		}
	}
	src.WriteString("\t\tout[\"impl\"] = impl\n\t}()\n\tb, _ := json.Marshal(out)\n\tfmt.Println(\"GOVC-REPLAY \" + string(b))\n}\n")

	tmp, err := os.MkdirTemp(os.Getenv("TMPDIR"), "govc-replay-")
	if err != nil {
		return false, "replay: " + err.Error()
	}
	defer os.RemoveAll(tmp)
	testFile := filepath.Join(tmp, "zz_govc_replay_test.go")
	os.WriteFile(testFile, []byte(src.String()), 0o644)
	ov, _ := json.Marshal(map[string]any{"Replace": map[string]string{filepath.Join(pkgDir, "zz_govc_replay_test.go"): testFile}})
	ovFile := filepath.Join(tmp, "overlay.json")
	os.WriteFile(ovFile, ov, 0o644)
	cmd := exec.Command("go", "test", "-tags", "verif", "-overlay", ovFile, "-vet=off", "-count=1", "-v", "-timeout", "60s", "-run", "^TestGovcReplay$", ".")
	cmd.Dir = pkgDir
	cmd.Env = append(os.Environ(), "GOFLAGS=-mod=mod", "GOPROXY=off")
	t0 := time.Now()
	outB, _ := cmd.CombinedOutput()
	out := string(outB)
	cmdline := fmt.Sprintf("(cd %s && go test -tags verif -overlay <overlay> -vet=off -count=1 -timeout 60s -run '^TestGovcReplay$' .) [%.1fs]", pkgDir, time.Since(t0).Seconds())
	idx := strings.Index(out, "GOVC-REPLAY ")
	if idx < 0 {
		return false, "replay: test did not run: " + firstLines(out, 6) + "\n" + cmdline
	}
	line := strings.SplitN(out[idx+len("GOVC-REPLAY "):], "\n", 2)[0]
	var res struct {
		Panicked bool                         `json:"panicked"`
		Panic    string                       `json:"panic"`
		Results  []json.RawMessage            `json:"results"`
		Impl     map[string]map[string]string `json:"impl"`
	}
	if err := json.Unmarshal([]byte(line), &res); err != nil {
		return false, "replay: cannot parse harness output: " + line
	}
	desc := fmt.Sprintf("call %s -> %s\n%s", call, line, cmdline)
	if o.Kind == "panic" {
		return res.Panicked, desc
	}
	if res.Panicked {
		return false, desc + "\n(the real call panicked; the postcondition is not evaluated)"
	}
	// feed inputs and observed results back into the query
	q, _ := o.query(rc.w)
	q = strings.TrimSuffix(strings.TrimSpace(q), "(check-sat)")
	var extra strings.Builder
	for _, a := range args {
		fmt.Fprintf(&extra, "(assert (= %s %s))\n", a.name, a.smt)
	}
	for i, rt := range o.Results {
		if i >= len(res.Results) {
			break
		}
		lit, ok := goResultToSMT(rt.T, res.Results[i])
		if !ok {
			return false, desc + fmt.Sprintf("\n(result %d of type %s cannot be fed back)", i, rt.T)
		}
		fmt.Fprintf(&extra, "(assert (= %s %s))\n", rt.S, lit)
	}
	for spec, m := range res.Impl {
		if !strings.Contains(q, "spec_"+spec+" ") {
			continue
		}
		for in, outv := range m {
			fmt.Fprintf(&extra, "(assert (= (spec_%s %s) %s))\n", spec, smtString(in), smtString(outv))
		}
	}
	full := q + "\n" + extra.String() + "(check-sat)\n"
	ans, sout, _ := runSolver(ctxBackground(), "z3-new", 10, full, false)
	desc += fmt.Sprintf("\nclause re-evaluated on the observed input/output by z3: %s", ans)
	if ans == "sat" {
		return true, desc
	}
	_ = sout
	return false, desc
}
