package main

// replayOnRealCode: placeholder until the replay harness is built.
func replayOnRealCode(rc *runCtx, verif string, o *Obl, r *Result, inputs map[string]string) (bool, string) {
	return false, "replay harness not available for this obligation"
}
