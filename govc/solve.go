package main

import (
	"context"
	"regexp"
	"fmt"
	"os"
	"os/exec"
	"path/filepath"
	"strings"
	"sync"
	"time"
)

type Result struct {
	Obl      *Obl
	Status   string // discharged | refuted | unknown | error
	Solver   string
	Seconds  float64
	Model    string
	Output   string
	QueryLen int
	Query    string
}

type solverSpec struct {
	name string
	cmd  []string
}

func solverCmd(name string, timeoutS int) []string {
	switch name {
	case "z3-new":
		return []string{"z3-new", fmt.Sprintf("-T:%d", timeoutS), "-in"}
	case "z3":
		return []string{"z3", fmt.Sprintf("-T:%d", timeoutS), "-in"}
	case "cvc5":
		return []string{"cvc5", "--lang=smt2", fmt.Sprintf("--tlimit=%d", timeoutS*1000), "--strings-exp", "--fmf-fun"}
	case "cvc5-plain":
		return []string{"cvc5", "--lang=smt2", fmt.Sprintf("--tlimit=%d", timeoutS*1000), "--strings-exp"}
	}
	return nil
}

var symRe = regexp.MustCompile(`[A-Za-z_][A-Za-z0-9_]*`)

// assertSyms returns (cached) the declared constants mentioned by assertion i.
func (e *Enc) assertSyms(i int) []string {
	e.symMu.Lock()
	defer e.symMu.Unlock()
	if e.symCache == nil {
		e.symCache = map[int][]string{}
	}
	if s, ok := e.symCache[i]; ok {
		return s
	}
	var out []string
	seen := map[string]bool{}
	for _, m := range symRe.FindAllString(e.asserts[i], -1) {
		if _, decl := e.declared[m]; decl && !seen[m] {
			seen[m] = true
			out = append(out, m)
		}
	}
	e.symCache[i] = out
	return out
}

// slice keeps the assertions in the cone of influence of the goal: an assertion is relevant if it shares a
// non-reachability constant with the relevant set; definitions of reachability constants (at_*) are always kept.
// Dropping assertions only weakens the hypotheses, so an unsat answer for the slice is an unsat answer for the whole.
func (o *Obl) slice(n int) []int {
	e := o.enc
	rel := map[string]bool{}
	addText := func(t string) {
		for _, m := range symRe.FindAllString(t, -1) {
			if _, decl := e.declared[m]; decl {
				rel[m] = true
			}
		}
	}
	addText(o.Guard)
	addText(o.Goal)
	for _, x := range o.Extra {
		addText(x)
	}
	isAt := func(s string) bool { return strings.HasPrefix(s, "at_b") }
	keep := make([]bool, n)
	for changed := true; changed; {
		changed = false
		for i := 0; i < n; i++ {
			if keep[i] {
				continue
			}
			syms := e.assertSyms(i)
			hit := false
			atDef := strings.HasPrefix(e.asserts[i], "(= at_b") || strings.HasPrefix(e.asserts[i], "at_b") || strings.HasPrefix(e.asserts[i], "(not at_b")
			if atDef {
				// keep the definition of a reachability constant once that constant is relevant
				for _, s := range syms {
					if isAt(s) && rel[s] {
						hit = true
					}
					break
				}
			} else {
				for _, s := range syms {
					if !isAt(s) && rel[s] {
						hit = true
						break
					}
				}
			}
			if hit {
				keep[i] = true
				changed = true
				for _, s := range syms {
					rel[s] = true
				}
			}
		}
	}
	var out []int
	for i := 0; i < n; i++ {
		if keep[i] {
			out = append(out, i)
		}
	}
	return out
}

func (o *Obl) query(w *World) (string, bool) {
	return o.queryOpt(w, false)
}

func (o *Obl) queryOpt(w *World, sliced bool) (string, bool) {
	e := o.enc
	var body strings.Builder
	n := o.NAssert
	if n > len(e.asserts) {
		n = len(e.asserts)
	}
	if sliced {
		for _, i := range o.slice(n) {
			body.WriteString("(assert " + e.asserts[i] + ")\n")
		}
	} else {
		for _, a := range e.asserts[:n] {
			body.WriteString("(assert " + a + ")\n")
		}
	}
	for _, a := range o.Extra {
		body.WriteString("(assert " + a + ")\n")
	}
	body.WriteString("(assert (and " + o.Guard + " (not " + o.Goal + ")))\n")
	defs, hasRec := w.specs.definitions(body.String())
	var q strings.Builder
	q.WriteString(w.so.prelude())
	q.WriteString("(declare-fun bytesStr ((Array Int Int) Int) String)\n(declare-fun fieldaddr (Int Int) Int)\n(declare-fun fa_ref (Int) Int)\n(declare-fun fa_idx (Int) Int)\n")
	q.WriteString(defs)
	for _, d := range e.decls {
		q.WriteString(d + "\n")
	}
	q.WriteString(body.String())
	q.WriteString("(check-sat)\n")
	return q.String(), hasRec
}

func runSolver(ctx context.Context, name string, timeoutS int, query string, wantModel bool) (string, string, float64) {
	cmd := solverCmd(name, timeoutS)
	q := query
	if wantModel {
		q += "(get-model)\n"
	}
	t0 := time.Now()
	cctx, cancel := context.WithTimeout(ctx, time.Duration(timeoutS+3)*time.Second)
	defer cancel()
	c := exec.CommandContext(cctx, cmd[0], cmd[1:]...)
	c.Stdin = strings.NewReader(q)
	out, _ := c.CombinedOutput()
	dt := time.Since(t0).Seconds()
	s := string(out)
	first := strings.TrimSpace(strings.SplitN(s, "\n", 2)[0])
	switch first {
	case "sat", "unsat", "unknown":
		return first, s, dt
	}
	if strings.HasPrefix(first, "(error") {
		return "error", s, dt
	}
	if strings.Contains(s, "timeout") || cctx.Err() != nil {
		return "timeout", s, dt
	}
	return "error", s, dt
}

// solve decides one obligation with the portfolio.
func solve(w *World, o *Obl, tier string, keepQuery bool) *Result {
	r := &Result{Obl: o}
	if o.Kind == "contract-error" {
		r.Status = "error"
		r.Output = o.Label
		return r
	}
	if o.Static != "" {
		r.Solver = "dataflow"
		if o.Static == "ok" {
			r.Status = "discharged"
		} else {
			r.Status = "refuted"
			r.Output = o.Static
		}
		return r
	}
	// first try the cone-of-influence slice (an unsat answer for it is final); fall back to the full query
	if o.enc != nil && o.Kind != "cover" && !o.Short && os.Getenv("GOVC_NOSLICE") == "" {
		sq, sRec := o.queryOpt(w, true)
		solvers := []string{"z3-new", "z3"}
		if sRec {
			solvers = []string{"z3-new", "z3", "cvc5"}
		}
		type sr struct{ name, ans string }
		ch := make(chan sr, len(solvers))
		sctx, scancel := context.WithCancel(context.Background())
		for _, nm := range solvers {
			go func(nm string) {
				a, _, _ := runSolver(sctx, nm, 8, sq, false)
				ch <- sr{nm, a}
			}(nm)
		}
		t0s := time.Now()
		for range solvers {
			x := <-ch
			if x.ans == "unsat" {
				scancel()
				r.Status, r.Solver, r.QueryLen = "discharged", x.name+"/slice", len(sq)
				r.Seconds = time.Since(t0s).Seconds()
				return r
			}
		}
		scancel()
	}
	q, hasRec := o.query(w)
	r.QueryLen = len(q)
	if keepQuery {
		r.Query = q
	}
	first, full := 2, 45
	if tier == "thorough" {
		first, full = 3, 120
	}
	t0 := time.Now()
	defer func() { r.Seconds = time.Since(t0).Seconds() }()
	ctx := context.Background()
	if o.Short {
		ans, out, _ := runSolver(ctx, "z3-new", 2, q, true)
		switch ans {
		case "unsat":
			r.Status, r.Solver = "discharged", "z3-new"
		case "sat":
			r.Status, r.Solver, r.Model, r.Output = "refuted", "z3-new", out, out
		default:
			r.Status, r.Output = "unknown", "z3-new: "+ans
		}
		return r
	}
	if o.Kind == "cover" {
		// only an unsat answer matters (vacuity); a model is not needed
		ans, out, _ := runSolver(ctx, "z3-new", 2, q, false)
		switch ans {
		case "unsat":
			r.Status, r.Solver = "discharged", "z3-new"
		case "sat":
			r.Status, r.Solver = "refuted", "z3-new"
		default:
			r.Status, r.Output = "unknown", out
		}
		return r
	}
	// portfolio: z3-new and z3 4.8.12 start at once; cvc5 joins after `first` seconds; the first definite answer wins
	type sres struct {
		name, ans, out string
	}
	cctx, cancel := context.WithCancel(ctx)
	defer cancel()
	ch := make(chan sres, 4)
	launch := func(nm string, model bool) {
		go func() {
			a, o2, _ := runSolver(cctx, nm, full, q, model)
			ch <- sres{nm, a, o2}
		}()
	}
	pending := 0
	launch("z3-new", true)
	pending++
	launch("z3", false)
	pending++
	late := time.After(time.Duration(first) * time.Second)
	lateStarted := false
	var sat *sres
	var outs []string
	for pending > 0 {
		select {
		case <-late:
			if !lateStarted {
				lateStarted = true
				launch("cvc5", true)
				pending++
				if hasRec {
					launch("cvc5-plain", true)
					pending++
				}
			}
		case sr := <-ch:
			pending--
			outs = append(outs, sr.name+": "+sr.ans)
			if sr.ans == "unsat" {
				r.Status, r.Solver = "discharged", sr.name
				return r
			}
			if sr.ans == "sat" {
				if sr.name == "z3" {
					// z3 4.8.12 is not asked for a model; re-ask z3-new/cvc5 only through the running portfolio
					c := sr
					if sat == nil {
						sat = &c
					}
				} else {
					c := sr
					sat = &c
					pending = 0
				}
			}
			if sr.ans == "error" {
				outs = append(outs, firstLines(sr.out, 3))
			}
			if pending == 0 && !lateStarted && sat == nil {
				lateStarted = true
				launch("cvc5", true)
				pending++
			}
		}
	}
	if sat != nil {
		r.Status, r.Solver, r.Model, r.Output = "refuted", sat.name, sat.out, sat.out
		if sat.name == "z3" {
			r.Model = ""
		}
		return r
	}
	r.Status = "unknown"
	r.Output = strings.Join(outs, "; ")
	return r
}

func ctxBackground() context.Context { return context.Background() }

func firstLines(s string, n int) string {
	ls := strings.Split(s, "\n")
	if len(ls) > n {
		ls = ls[:n]
	}
	return strings.Join(ls, " | ")
}

func solveAll(w *World, obls []*Obl, tier string, par int, dumpDir string) []*Result {
	res := make([]*Result, len(obls))
	var wg sync.WaitGroup
	sem := make(chan struct{}, par)
	for i, o := range obls {
		wg.Add(1)
		sem <- struct{}{}
		go func(i int, o *Obl) {
			defer wg.Done()
			defer func() { <-sem }()
			r := solve(w, o, tier, dumpDir != "")
			res[i] = r
			if dumpDir != "" && r.Query != "" {
				fn := filepath.Join(dumpDir, sanitize(o.Name)+".smt2")
				os.WriteFile(fn, []byte(r.Query), 0o644)
			}
		}(i, o)
	}
	wg.Wait()
	return res
}
