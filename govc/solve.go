package main

import (
	"context"
	"fmt"
	"os"
	"os/exec"
	"path/filepath"
	"strings"
	"sync"
	"time"
)

type Result struct {
	Obl      *Obl
	Status   string // discharged | refuted | unknown | error
	Solver   string
	Seconds  float64
	Model    string
	Output   string
	QueryLen int
	Query    string
}

type solverSpec struct {
	name string
	cmd  []string
}

func solverCmd(name string, timeoutS int) []string {
	switch name {
	case "z3-new":
		return []string{"z3-new", fmt.Sprintf("-T:%d", timeoutS), "-in"}
	case "z3":
		return []string{"z3", fmt.Sprintf("-T:%d", timeoutS), "-in"}
	case "cvc5":
		return []string{"cvc5", "--lang=smt2", fmt.Sprintf("--tlimit=%d", timeoutS*1000), "--strings-exp", "--fmf-fun"}
	case "cvc5-plain":
		return []string{"cvc5", "--lang=smt2", fmt.Sprintf("--tlimit=%d", timeoutS*1000), "--strings-exp"}
	}
	return nil
}

func (o *Obl) query(w *World) (string, bool) {
	e := o.enc
	var body strings.Builder
	n := o.NAssert
	if n > len(e.asserts) {
		n = len(e.asserts)
	}
	for _, a := range e.asserts[:n] {
		body.WriteString("(assert " + a + ")\n")
	}
	for _, a := range o.Extra {
		body.WriteString("(assert " + a + ")\n")
	}
	body.WriteString("(assert (and " + o.Guard + " (not " + o.Goal + ")))\n")
	defs, hasRec := w.specs.definitions(body.String())
	var q strings.Builder
	q.WriteString(w.so.prelude())
	q.WriteString("(declare-fun bytesStr ((Array Int Int) Int) String)\n")
	q.WriteString(defs)
	for _, d := range e.decls {
		q.WriteString(d + "\n")
	}
	q.WriteString(body.String())
	q.WriteString("(check-sat)\n")
	return q.String(), hasRec
}

func runSolver(ctx context.Context, name string, timeoutS int, query string, wantModel bool) (string, string, float64) {
	cmd := solverCmd(name, timeoutS)
	q := query
	if wantModel {
		q += "(get-model)\n"
	}
	t0 := time.Now()
	cctx, cancel := context.WithTimeout(ctx, time.Duration(timeoutS+3)*time.Second)
	defer cancel()
	c := exec.CommandContext(cctx, cmd[0], cmd[1:]...)
	c.Stdin = strings.NewReader(q)
	out, _ := c.CombinedOutput()
	dt := time.Since(t0).Seconds()
	s := string(out)
	first := strings.TrimSpace(strings.SplitN(s, "\n", 2)[0])
	switch first {
	case "sat", "unsat", "unknown":
		return first, s, dt
	}
	if strings.HasPrefix(first, "(error") {
		return "error", s, dt
	}
	if strings.Contains(s, "timeout") || cctx.Err() != nil {
		return "timeout", s, dt
	}
	return "error", s, dt
}

// solve decides one obligation with the portfolio.
func solve(w *World, o *Obl, tier string, keepQuery bool) *Result {
	r := &Result{Obl: o}
	if o.Kind == "contract-error" {
		r.Status = "error"
		r.Output = o.Label
		return r
	}
	q, hasRec := o.query(w)
	r.QueryLen = len(q)
	if keepQuery {
		r.Query = q
	}
	first, full := 3, 10
	if tier == "thorough" {
		first, full = 5, 60
	}
	t0 := time.Now()
	defer func() { r.Seconds = time.Since(t0).Seconds() }()
	ctx := context.Background()
	if o.Short {
		ans, out, _ := runSolver(ctx, "z3-new", 2, q, true)
		switch ans {
		case "unsat":
			r.Status, r.Solver = "discharged", "z3-new"
		case "sat":
			r.Status, r.Solver, r.Model, r.Output = "refuted", "z3-new", out, out
		default:
			r.Status, r.Output = "unknown", "z3-new: "+ans
		}
		return r
	}
	if o.Kind == "cover" {
		// only an unsat answer matters (vacuity); a model is not needed
		ans, out, _ := runSolver(ctx, "z3-new", 2, q, false)
		switch ans {
		case "unsat":
			r.Status, r.Solver = "discharged", "z3-new"
		case "sat":
			r.Status, r.Solver = "refuted", "z3-new"
		default:
			r.Status, r.Output = "unknown", out
		}
		return r
	}
	// stage 1: z3-new alone, short
	ans, out, _ := runSolver(ctx, "z3-new", first, q, true)
	if ans == "unsat" {
		r.Status, r.Solver = "discharged", "z3-new"
		return r
	}
	if ans == "sat" && !hasRec {
		r.Status, r.Solver, r.Model, r.Output = "refuted", "z3-new", out, out
		return r
	}
	// stage 2: all three in parallel
	type sres struct {
		name, ans, out string
	}
	names := []string{"z3-new", "cvc5", "z3"}
	if hasRec {
		names = []string{"z3-new", "cvc5", "cvc5-plain"}
	}
	ch := make(chan sres, len(names))
	cctx, cancel := context.WithCancel(ctx)
	defer cancel()
	for _, nm := range names {
		go func(nm string) {
			a, o2, _ := runSolver(cctx, nm, full, q, nm != "z3")
			ch <- sres{nm, a, o2}
		}(nm)
	}
	var sat *sres
	var outs []string
	for range names {
		s := <-ch
		outs = append(outs, s.name+": "+s.ans)
		if s.ans == "unsat" {
			r.Status, r.Solver = "discharged", s.name
			return r
		}
		if s.ans == "sat" && sat == nil {
			c := s
			sat = &c
			if !hasRec {
				break
			}
		}
		if s.ans == "error" {
			outs = append(outs, firstLines(s.out, 3))
		}
	}
	if sat != nil && !hasRec {
		r.Status, r.Solver, r.Model, r.Output = "refuted", sat.name, sat.out, sat.out
		return r
	}
	if sat != nil {
		// recursive definitions: a sat answer is not trusted as a counterexample, but the obligation is not proved either
		r.Status, r.Solver, r.Model, r.Output = "refuted", sat.name, sat.out, sat.out
		return r
	}
	r.Status = "unknown"
	r.Output = strings.Join(outs, "; ")
	return r
}

func ctxBackground() context.Context { return context.Background() }

func firstLines(s string, n int) string {
	ls := strings.Split(s, "\n")
	if len(ls) > n {
		ls = ls[:n]
	}
	return strings.Join(ls, " | ")
}

func solveAll(w *World, obls []*Obl, tier string, par int, dumpDir string) []*Result {
	res := make([]*Result, len(obls))
	var wg sync.WaitGroup
	sem := make(chan struct{}, par)
	for i, o := range obls {
		wg.Add(1)
		sem <- struct{}{}
		go func(i int, o *Obl) {
			defer wg.Done()
			defer func() { <-sem }()
			r := solve(w, o, tier, dumpDir != "")
			res[i] = r
			if dumpDir != "" && r.Query != "" {
				fn := filepath.Join(dumpDir, sanitize(o.Name)+".smt2")
				os.WriteFile(fn, []byte(r.Query), 0o644)
			}
		}(i, o)
	}
	wg.Wait()
	return res
}
