package main

// Inlining of small helper functions. A repository function without a contract that is inferred pure (it writes only
// objects it allocates and calls only pure functions), has no loops, defers or closures and is small is encoded at its
// call sites from its own SSA body instead of being replaced by an arbitrary result. The caller then sees what the
// helper computes - extracting an expression into such a helper does not change what can be proved about the caller
// (modular verification would otherwise demand a contract for every extracted helper).
// Nothing is checked inside the inlined body (its panic obligations belong to the helper's own sweep); a path that
// would panic there is simply not continued. If anything unexpected happens the attempt is rolled back and the call
// is treated as before (pure, arbitrary result).

import (
	"fmt"
	"go/types"

	"golang.org/x/tools/go/ssa"
)

const maxInlineInstrs = 120
const maxInlineDepth = 3

func inlinable(fn *ssa.Function) bool {
	if fn == nil || len(fn.Blocks) == 0 || len(fn.FreeVars) > 0 || fn.Recover != nil {
		return false
	}
	n := 0
	for _, b := range fn.Blocks {
		for _, s := range b.Succs {
			if s.Dominates(b) {
				return false // a loop
			}
		}
		for _, in := range b.Instrs {
			n++
			switch x := in.(type) {
			case *ssa.Defer, *ssa.Go, *ssa.Select, *ssa.MakeClosure, *ssa.RunDefers, *ssa.Panic, *ssa.Range, *ssa.Next:
				return false
			case *ssa.Call:
				if x.Common().StaticCallee() == fn {
					return false
				}
			}
		}
	}
	return n <= maxInlineInstrs
}

// inlinableImpure: a small helper without a contract that is NOT inferred pure (it writes through its arguments) may
// be encoded from its body as well - its writes are then the writes of the caller, exactly as before the statements
// were extracted. Excluded: helpers that touch a lock or a field declared shared (the lock discipline is checked per
// function, not through inlined bodies) and methods of types that carry an object invariant.
func (w *World) inlinableImpure(fn *ssa.Function) bool {
	if !inlinable(fn) {
		return false
	}
	if recv := fn.Signature.Recv(); recv != nil {
		tn := types.TypeString(recv.Type(), func(*types.Package) string { return "" })
		for _, iv := range w.cs.Invs {
			if iv.Type == tn {
				return false
			}
		}
	}
	sharedField := map[string]bool{}
	for _, sd := range w.cs.Shared {
		name := sd.Name
		for i := len(name) - 1; i >= 0; i-- {
			if name[i] == '.' {
				name = name[i+1:]
				break
			}
		}
		sharedField[name] = true
		sharedField[sd.Guard] = true
	}
	for _, b := range fn.Blocks {
		for _, in := range b.Instrs {
			switch x := in.(type) {
			case *ssa.FieldAddr:
				if st, ok := x.X.Type().Underlying().(*types.Pointer).Elem().Underlying().(*types.Struct); ok && sharedField[st.Field(x.Field).Name()] {
					return false
				}
			case *ssa.Field:
				if st, ok := x.X.Type().Underlying().(*types.Struct); ok && sharedField[st.Field(x.Field).Name()] {
					return false
				}
			case *ssa.Call:
				if c := x.Common().StaticCallee(); c != nil && c.Pkg != nil && c.Pkg.Pkg.Path() == "sync" {
					return false
				}
				if x.Common().IsInvoke() {
					return false
				}
			case *ssa.UnOp:
				if g, ok := x.X.(*ssa.Global); ok && sharedField[g.Name()] {
					return false
				}
			}
		}
	}
	return true
}

// inlineCall encodes the body of fn at the current point of e. Returns false (and leaves e untouched) if it cannot.
func (e *Enc) inlineCall(v ssa.Value, fn *ssa.Function, args []TV, guard string) (ok bool) {
	if e.inlineDepth >= maxInlineDepth || !inlinable(fn) || len(args) != len(fn.Params) {
		return false
	}
	// snapshot for rollback
	nDecl, nAssert, nObl, n0 := len(e.decls), len(e.asserts), len(e.obls), e.n
	declared0 := map[string]bool{}
	for k := range e.declared {
		declared0[k] = true
	}
	comp0 := map[string]bool{}
	for k := range e.compSort {
		comp0[k] = true
	}
	st0 := e.st
	rollback := func() {
		e.decls, e.asserts, e.obls, e.n = e.decls[:nDecl], e.asserts[:nAssert], e.obls[:nObl], n0
		for k := range e.declared {
			if !declared0[k] {
				delete(e.declared, k)
			}
		}
		for k := range e.compSort {
			if !comp0[k] {
				delete(e.compSort, k)
			}
		}
		e.st = st0
		e.symCache = nil
	}
	defer func() {
		if r := recover(); r != nil {
			rollback()
			ok = false
		}
	}()

	c := newEnc(e.w, fn)
	c.ctr = nil
	c.noPanics = true
	c.noLocks = true
	c.inlined = true
	c.inlineDepth = e.inlineDepth + 1
	c.analyseCFG()
	c.analyseAllocs()
	c.reset()
	c.pass = e.pass
	// shared sinks and registries
	c.decls, c.asserts, c.declared, c.n = e.decls, e.asserts, e.declared, e.n
	c.compSort, c.refComp, c.sliceComp = e.compSort, e.refComp, e.sliceComp
	c.entry = e.entry
	c.st = e.st.clone()
	c.ptrNonNil = map[string]bool{}
	for k, b := range e.ptrNonNil {
		c.ptrNonNil[k] = b
	}
	for i, p := range fn.Params {
		c.vals[p] = TV{args[i].S, c.sortOf(p.Type()), p.Type()}
	}
	c.inlineGuard = guard

	type retRec struct {
		guard string
		vals  []TV
		st    *State
	}
	var rets []retRec
	for _, b := range c.rpo {
		c.curBlock = b
		c.enterBlock(b)
		for _, in := range b.Instrs {
			if r, isRet := in.(*ssa.Return); isRet {
				var vs []TV
				for _, x := range r.Results {
					vs = append(vs, c.val(x))
				}
				rets = append(rets, retRec{c.at[b], vs, c.st})
				continue
			}
			c.instr(in)
		}
		c.stOut[b] = c.st
	}
	if len(rets) == 0 || len(c.unmodelled) > 0 || c.flags["unsupported"] {
		rollback()
		return false
	}
	// take over what the body produced
	e.decls, e.asserts, e.n = c.decls, c.asserts, c.n
	e.symCache = nil
	for k := range c.flags {
		e.flags[k] = true
	}
	for k := range c.inferredUsed {
		e.inferredUsed[k] = true
	}
	e.inlinedFns[fnKey(fn)] = true
	// merged state after the call
	ns := &State{epoch: rets[0].st.epoch, m: map[string]string{}}
	for _, r := range rets[1:] {
		if r.st.epoch != ns.epoch {
			rollback()
			return false
		}
	}
	keys := map[string]bool{}
	for _, r := range rets {
		for k := range r.st.m {
			keys[k] = true
		}
	}
	for k := range st0.m {
		keys[k] = true
	}
	for _, k := range sortedKeys(keys) {
		if len(k) > 2 && (k[:2] == "L|" || k[:3] == "It|") {
			if t, had := st0.m[k]; had {
				ns.m[k] = t // the caller's own locals are not the callee's
			}
			continue
		}
		var terms []string
		same := true
		for _, r := range rets {
			t := e.get(r.st, k)
			terms = append(terms, t)
			if t != terms[0] {
				same = false
			}
		}
		if same {
			ns.m[k] = terms[0]
			continue
		}
		m := e.fresh("inl_"+k, e.compKeySort(k))
		for i, r := range rets {
			e.assert(imp(r.guard, eq(m, terms[i])))
		}
		ns.m[k] = m
	}
	e.st = ns
	// the writes of the body count as writes of the calling block (loop analysis)
	if e.curBlock != nil {
		for _, mp := range c.writes {
			for k := range mp {
				if e.writes[e.curBlock] == nil {
					e.writes[e.curBlock] = map[string]bool{}
				}
				e.writes[e.curBlock][k] = true
			}
		}
		for _, mp := range c.genWrites {
			for k := range mp {
				if e.genWrites[e.curBlock] == nil {
					e.genWrites[e.curBlock] = map[string]bool{}
				}
				e.genWrites[e.curBlock][k] = true
			}
		}
	}
	// result value(s)
	if v != nil {
		nres := fn.Signature.Results().Len()
		mk := func(i int, t types.Type) TV {
			s := e.sortOf(t)
			if len(rets) == 1 {
				return TV{rets[0].vals[i].S, s, t}
			}
			r := e.fresh(fmt.Sprintf("inl_%s_r%d", v.Name(), i), s)
			for _, rr := range rets {
				e.assert(imp(rr.guard, eq(r, rr.vals[i].S)))
			}
			return TV{r, s, t}
		}
		switch {
		case nres == 1:
			tv := mk(0, v.Type())
			e.vals[v] = tv
		case nres > 1:
			tup := v.Type().(*types.Tuple)
			var tvs []TV
			for i := 0; i < tup.Len(); i++ {
				tvs = append(tvs, mk(i, tup.At(i).Type()))
			}
			e.tuples[v] = tvs
		}
	}
	// the call returns only if some return of the body is reached
	var gs []string
	for _, r := range rets {
		gs = append(gs, r.guard)
	}
	e.assert(imp(guard, or(gs...)))
	return true
}
